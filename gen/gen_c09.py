#!/usr/bin/env python3
"""Generator for C09 (engine E3): one mock function per (arity n, probed position p, passing mode, mock kind); every
clause kind (WITH, SIDE_EFFECT, RETURN, THROW) references _p; the other positions carry distinct int values so that a
permutation of positions is visible. Usage: gen_c09.py <outdir>; prints the generated file names."""
import os
import sys

NCHUNK = 16
MODES = ['INT', 'REF', 'CREF', 'RREF', 'PTR', 'VAL', 'UPV', 'UPR', 'SREF', 'PREF']
PTYPE = {'SREF': 'int&', 'PREF': 'Cnt*&', 'CREFRET': 'const Cnt&', 'RVRET': 'Cnt2&&', 'LVRET': 'Cnt2&', 'INT': 'int', 'REF': 'Cnt&', 'CREF': 'const Cnt&', 'RREF': 'Cnt&&', 'PTR': 'Cnt*', 'VAL': 'Cnt', 'UPV': 'std::unique_ptr<int>', 'UPR': 'std::unique_ptr<int>&&'}


def others_cond(n, p):
    c = ' && '.join('_%d == %d' % (k, 10 * k) for k in range(1, n + 1) if k != p)
    return c or 'true'


def emit(n, p, mode, kind):
    """returns (struct decl text, test function text, name)"""
    name = 'a%d_p%d_%s_%s' % (n, p, mode, kind)
    types = ['int'] * n
    if n:
        types[p - 1] = PTYPE[mode]
    ret = 'Cnt&' if mode == 'REF' else 'int&' if mode == 'SREF' else ('const Cnt&' if mode == 'CREFRET' else ('Cnt2' if mode in ('RVRET', 'LVRET') else 'int'))
    sig = '%s(%s)' % (ret, ', '.join(types))
    wild = ', '.join(['trompeloeil::_'] * n)
    decl = []
    obj = 'm'
    callobj = 'm'
    if kind == 'plain':
        decl.append('struct M_%s {\n  MAKE_MOCK%d(f, %s);\n};' % (name, n, sig))
    elif kind == 'const':
        decl.append('struct M_%s {\n  MAKE_CONST_MOCK%d(f, %s);\n};' % (name, n, sig))
    elif kind == 'overload':
        n2 = n + 1 if n < 15 else n - 1
        decl.append('struct M_%s {\n  MAKE_MOCK%d(f, %s);\n  MAKE_MOCK%d(f, int(%s));\n};' % (name, n, sig, n2, ', '.join(['int'] * n2)))
    elif kind == 'iface':
        params = ', '.join(types)
        decl.append('struct I_%s {\n  virtual ~I_%s() = default;\n  virtual %s f(%s) = 0;\n};\nstruct M_%s : trompeloeil::mock_interface<I_%s> {\n  IMPLEMENT_MOCK%d(f);\n};' % (name, name, ret, params, name, name, n))
        callobj = 'iface'
    args = [str(10 * k) for k in range(1, n + 1)]
    pre = []
    post = []
    T = 'arity %d position %d mode %s kind %s' % (n, p, mode, kind)
    chk = lambda what, got, exp: '  R.check("%s: %s", "call", std::to_string(%s), std::to_string(%s), "%s");' % (T, what, got, exp, mode)
    body = ['static void test_%s() {' % name, '  Cnt::reset();', '  %sM_%s m;' % ('const ' if kind == 'const' else '', name)]
    if kind == 'iface':
        body.append('  I_%s& iface = m;' % name)
    oc = others_cond(n, p)
    if n == 0:
        body += ['  { REQUIRE_CALL(m, f()).RETURN(7); int r = %s.f(); %s }' % (callobj, chk('RETURN with no parameters', 'r', '7').strip())]
        body.append('}')
        return '\n'.join(decl), '\n'.join(body), name
    v = 10 * p
    if mode == 'INT':
        body += [
            '  int seen = -1;',
            '  { REQUIRE_CALL(m, f(%s)).WITH(_%d == %d && %s).LR_SIDE_EFFECT(seen = _%d).RETURN(_%d);' % (wild, p, v, oc, p, p),
            '    int r = %s.f(%s);' % (callobj, ', '.join(args)),
            chk('WITH saw every position in order and RETURN(_p) returned it', 'r', v), chk('SIDE_EFFECT saw _p', 'seen', v), '  }',
            '  { REQUIRE_CALL(m, f(%s)).THROW(_%d);' % (wild, p),
            '    int thrown = -1; try { %s.f(%s); } catch (int x) { thrown = x; } catch (...) { thrown = -2; }' % (callobj, ', '.join(args)),
            chk('THROW(_p) threw the p-th argument', 'thrown', v), '  }',
            '  { int k = 1; REQUIRE_CALL(m, f(%s)).LR_WITH(_%d == %d * k).SIDE_EFFECT(g_sink = _%d).LR_RETURN(_%d + 0);' % (wild, p, v, p, p),
            '    int r = %s.f(%s);' % (callobj, ', '.join(args)),
            chk('LR_WITH / plain SIDE_EFFECT / LR_RETURN variants', 'r + g_sink', 2 * v), '  }',
        ]
    else:
        if mode in ('REF', 'CREF', 'RREF', 'PTR', 'VAL'):
            body.append('  Cnt arg(%d); Cnt::reset(); const void* addr = nullptr; (void)addr;' % v)
        if mode == 'REF':
            args[p - 1] = 'arg'
            body += ['  { int cw = -1, cs = -1; REQUIRE_CALL(m, f(%s)).LR_WITH(&_%d == &arg && %s).LR_WITH((cw = constness(_%d), true)).LR_SIDE_EFFECT(cs = constness(_%d)).LR_SIDE_EFFECT(_%d.v = 777).LR_SIDE_EFFECT(addr = &_%d).LR_RETURN(_%d);' % (wild, p, oc, p, p, p, p, p),
                     '    Cnt& r = %s.f(%s);' % (callobj, ', '.join(args)),
                     chk('a T& parameter is a non-const lvalue inside WITH', 'cw', 0), chk('a T& parameter is a non-const lvalue inside SIDE_EFFECT', 'cs', 0),
                     chk('WITH saw the caller\'s object (address identity)', '(int)(addr == &arg)', 1), chk('write through _p visible to the caller', 'arg.v', 777),
                     chk('reference returned from _p aliases the caller\'s object', '(int)(&r == &arg)', 1), chk('no copies', 'Cnt::copies', 0), chk('no moves', 'Cnt::moves', 0), '  }',
                     '  { REQUIRE_CALL(m, f(%s)).LR_THROW(constness(_%d) * 10 + (int)(&_%d == &arg));' % (wild, p, p),
                     '    int thrown = -1; try { %s.f(%s); } catch (int x) { thrown = x; } catch (...) { thrown = -2; }' % (callobj, ', '.join(args)),
                     chk('inside THROW a T& parameter is the caller\'s non-const object', 'thrown', 1), '  }']
        elif mode == 'SREF':
            # a reference to a scalar (an out-parameter): the clauses work on the caller's variable itself
            body.append('  int sarg = %d; const void* addr = nullptr;' % v)
            args[p - 1] = 'sarg'
            body += ['  { REQUIRE_CALL(m, f(%s)).LR_WITH(&_%d == &sarg && _%d == %d && %s).LR_SIDE_EFFECT(addr = &_%d).LR_SIDE_EFFECT(_%d = 777).LR_RETURN(_%d);' % (wild, p, p, v, oc, p, p, p),
                     '    int& r = %s.f(%s);' % (callobj, ', '.join(args)),
                     chk('int& parameter: WITH and SIDE_EFFECT see the caller\'s variable (address identity)', '(int)(addr == &sarg)', 1), chk('int& parameter: write through _p visible to the caller', 'sarg', 777),
                     chk('int& returned from _p aliases the caller\'s variable', '(int)(&r == &sarg)', 1), '  }']
        elif mode == 'PREF':
            body.append('  Cnt pointee(%d); Cnt* parg = nullptr; Cnt::reset();' % v)
            args[p - 1] = 'parg'
            body += ['  { REQUIRE_CALL(m, f(%s)).LR_WITH(&_%d == &parg && _%d == nullptr && %s).LR_SIDE_EFFECT(_%d = &pointee).LR_RETURN(_%d == &pointee ? _%d->v : -1);' % (wild, p, p, oc, p, p, p),
                     '    int r = %s.f(%s);' % (callobj, ', '.join(args)),
                     chk('T*& out-parameter: the caller\'s pointer was set by the side effect', '(int)(parg == &pointee)', 1), chk('RETURN sees the pointer the side effect stored', 'r', v), chk('no copies', 'Cnt::copies', 0), '  }']
        elif mode == 'CREF':
            args[p - 1] = 'arg'
            body += ['  { REQUIRE_CALL(m, f(%s)).LR_WITH(&_%d == &arg && %s).LR_SIDE_EFFECT(addr = &_%d).RETURN(_%d.v);' % (wild, p, oc, p, p),
                     '    int r = %s.f(%s);' % (callobj, ', '.join(args)),
                     chk('address identity', '(int)(addr == &arg)', 1), chk('RETURN(_p.v)', 'r', v), chk('no copies', 'Cnt::copies', 0), chk('no moves', 'Cnt::moves', 0), '  }']
        elif mode == 'RREF':
            args[p - 1] = 'std::move(arg)'
            body += ['  { REQUIRE_CALL(m, f(%s)).LR_WITH(&_%d == &arg && %s).LR_SIDE_EFFECT(addr = &_%d).RETURN(_%d.v);' % (wild, p, oc, p, p),
                     '    int r = %s.f(%s);' % (callobj, ', '.join(args)),
                     chk('rvalue reaches the clause without copy: address identity', '(int)(addr == &arg)', 1), chk('RETURN(_p.v)', 'r', v), chk('no copies', 'Cnt::copies', 0), chk('no moves', 'Cnt::moves', 0), '  }']
        elif mode == 'PTR':
            args[p - 1] = '&arg'
            body += ['  { REQUIRE_CALL(m, f(%s)).LR_WITH(_%d == &arg && %s).LR_SIDE_EFFECT(_%d->v = 555).RETURN(_%d->v);' % (wild, p, oc, p, p),
                     '    int r = %s.f(%s);' % (callobj, ', '.join(args)),
                     chk('write through pointer parameter visible', 'arg.v', 555), chk('RETURN after SIDE_EFFECT sees the write', 'r', 555), chk('no copies', 'Cnt::copies', 0), '  }']
        elif mode == 'VAL':
            args[p - 1] = 'arg'
            body += ['  { const void* a1 = nullptr; const void* a2 = nullptr; REQUIRE_CALL(m, f(%s)).LR_WITH((a1 = &_%d, _%d.v == %d) && %s).LR_SIDE_EFFECT(a2 = &_%d; _%d.v = 1).RETURN(_%d.v);' % (wild, p, p, v, oc, p, p, p),
                     '    int r = %s.f(%s);' % (callobj, ', '.join(args)),
                     chk('by-value parameter: exactly the one copy the caller makes', 'Cnt::copies', 1), chk('no moves', 'Cnt::moves', 0), chk('WITH and SIDE_EFFECT see the same parameter object', '(int)(a1 == a2 && a1 != &arg)', 1),
                     chk('RETURN sees the side effect\'s write to the parameter', 'r', 1), chk('caller\'s object untouched', 'arg.v', v), '  }']
        elif mode == 'CREFRET':
            body.insert(-1 if False else len(body), '  Cnt carg(%d); Cnt::reset();' % v)
            args[p - 1] = 'carg'
            body += ['  { REQUIRE_CALL(m, f(%s)).WITH(%s).RETURN(_%d);' % (wild, oc, p),
                     '    const Cnt& r = %s.f(%s);' % (callobj, ', '.join(args)),
                     chk('const reference returned from a const& parameter aliases the caller\'s object', '(int)(&r == &carg)', 1), chk('no copies', 'Cnt::copies', 0), '  }']
        elif mode == 'LVRET':
            body.insert(len(body), '  Cnt2 larg(%d); Cnt2::reset();' % v)
            args[p - 1] = 'larg'
            body += ['  { REQUIRE_CALL(m, f(%s)).WITH(%s).RETURN(_%d).TIMES(2);' % (wild, oc, p),
                     '    Cnt2 r = %s.f(%s);' % (callobj, ', '.join(args)),
                     chk('RETURN(_p) of a T& parameter returns a copy (value)', 'r.v', v), chk('the caller\'s object is intact after RETURN(_p)', 'larg.v', v),
                     '    Cnt2 r2 = %s.f(%s);' % (callobj, ', '.join(args)),
                     chk('second call: same value again', 'r2.v', v), chk('the caller\'s object was never moved from', 'larg.v', v), '  }',
                     '  { Cnt2 local(%d); REQUIRE_CALL(m, f(%s)).LR_RETURN(local).TIMES(2);' % (v + 1, wild),
                     '    Cnt2 r = %s.f(%s); Cnt2 r2 = %s.f(%s);' % (callobj, ', '.join(args), callobj, ', '.join(args)),
                     chk('LR_RETURN(local) returns a copy each time', 'r.v * 1000 + r2.v', (v + 1) * 1000 + v + 1), chk('the local is intact', 'local.v', v + 1), '  }']
        elif mode == 'RVRET':
            body.insert(len(body), '  Cnt2 rarg(%d); Cnt2::reset();' % v)
            args[p - 1] = 'std::move(rarg)'
            body += ['  { REQUIRE_CALL(m, f(%s)).WITH(%s).RETURN(std::move(_%d));' % (wild, oc, p),
                     '    Cnt2 r = %s.f(%s);' % (callobj, ', '.join(args)),
                     chk('RETURN(std::move(_p)) moves the rvalue argument out (value)', 'r.v', v), chk('not copied although the move constructor is not noexcept', 'Cnt2::copies', 0), chk('caller\'s object was moved from', 'rarg.v', -1), '  }']
        elif mode == 'UPV':
            args[p - 1] = 'std::move(up)'
            body += ['  std::unique_ptr<int> up(new int(%d)), taken;' % v,
                     '  { REQUIRE_CALL(m, f(%s)).LR_WITH(_%d != nullptr && *_%d == %d && %s).LR_SIDE_EFFECT(taken = std::move(_%d)).RETURN(3);' % (wild, p, p, v, oc, p),
                     '    int r = %s.f(%s);' % (callobj, ', '.join(args)),
                     chk('move-only by value reaches the clauses and can be taken', 'taken ? *taken : -1', v), chk('return', 'r', 3), '  }']
        elif mode == 'UPR':
            args[p - 1] = 'std::move(up)'
            body += ['  std::unique_ptr<int> up(new int(%d)); const void* addr = nullptr;' % v,
                     '  { REQUIRE_CALL(m, f(%s)).LR_WITH(&_%d == &up && %s).LR_SIDE_EFFECT(addr = &_%d).RETURN(*_%d);' % (wild, p, oc, p, p),
                     '    int r = %s.f(%s);' % (callobj, ', '.join(args)),
                     chk('move-only && aliases the caller\'s object', '(int)(addr == &up)', 1), chk('not moved from', 'up ? *up : -1', v), chk('RETURN(*_p)', 'r', v), '  }']
    body.append('}')
    return '\n'.join(decl), '\n'.join(body), name


def main():
    out = sys.argv[1]
    items = []
    for n in range(0, 16):
        if n == 0:
            for kind in ('plain', 'const', 'iface'):
                items.append((0, 0, 'INT', kind))
            continue
        for p in range(1, n + 1):
            for mode in MODES:
                items.append((n, p, mode, 'plain'))
            if p in (1, n):
                for kind in ('const', 'overload', 'iface'):
                    for mode in ('INT', 'REF'):
                        items.append((n, p, mode, kind))
                for mode in ('CREFRET', 'RVRET', 'LVRET'):
                    for kind in ('plain', 'const', 'iface'):
                        items.append((n, p, mode, kind))
    names = []
    table = []
    for k in range(NCHUNK):
        fn = os.path.join(out, 'c09_chunk_%d.cpp' % k)
        names.append(fn)
        with open(fn, 'w') as f:
            f.write('// generated by gen/gen_c09.py - do not edit\n#include "c09_args.hpp"\nnamespace {\n')
            tests = []
            for it in items[k::NCHUNK]:
                d, t, name = emit(*it)
                f.write(d + '\n' + t + '\n')
                tests.append((it[0], name))
            f.write('}\nvoid c09_chunk_%d(bool all_arities) {\n' % k)
            for n, name in tests:
                if n in (0, 1, 2, 8, 15):
                    f.write('  test_%s();\n' % name)
                else:
                    f.write('  if (all_arities) test_%s();\n' % name)
            f.write('}\n')
    fn = os.path.join(out, 'c09_chunks.cpp')
    names.append(fn)
    with open(fn, 'w') as f:
        f.write('// generated by gen/gen_c09.py - do not edit\n')
        for k in range(NCHUNK):
            f.write('void c09_chunk_%d(bool);\n' % k)
        f.write('void c09_all_chunks(bool all_arities) {\n')
        for k in range(NCHUNK):
            f.write('  c09_chunk_%d(all_arities);\n' % k)
        f.write('}\nextern const long c09_generated_functions = %d;\n' % len(items))
    print(' '.join(names))


if __name__ == '__main__':
    main()
