#!/usr/bin/env python3
"""Generator for C10 (engine E3): enumerates every matcher term up to the depth bound as a C++ expression together with
its abstract syntax (the string the reference evaluator interprets). Usage: gen_c10.py <outdir>; prints the generated
file names. Terms are types in this library, so each term is one template instantiation."""
import itertools
import os
import sys

NCHUNK = 16
CMP = ['eq', 'ne', 'lt', 'le', 'gt', 'ge']


def leaves(i):
    """leaf terms using operand variable number i: (abstract syntax, C++ expression)"""
    v = 'abc'[i]
    out = [('_', 'trompeloeil::_'), ('ANY', 'ANY(int)'), ('$%d' % i, v)]
    for c in CMP:
        out.append(('%s($%d)' % (c, i), 'trompeloeil::%s(%s)' % (c, v)))
        out.append(('%sT($%d)' % (c, i), 'trompeloeil::%s<int>(%s)' % (c, v)))
    return out


def matcher_leaves(i):
    return [l for l in leaves(i) if not l[0].startswith('$')]


def main():
    out = sys.argv[1]
    terms = []  # (macro, desc, expr)
    # depth 0/1: leaves and their negations
    for d, e in leaves(0):
        terms.append(('T1' if '$' in d else 'T0', d, e))
    for d, e in matcher_leaves(0):
        terms.append(('T1' if '$' in d else 'T0', '!' + d, '!' + e))
        terms.append(('T1' if '$' in d else 'T0', '!!' + d, '!!' + e))
    combs = ['any_of', 'all_of', 'none_of']
    # depth 1 combinators: 1 and 2 operands from all leaf kinds, 3 operands from a representative subset
    for c in combs:
        for (d0, e0) in leaves(0):
            terms.append(('T1', '%s(%s)' % (c, d0), 'trompeloeil::%s(%s)' % (c, e0)))
        for (d0, e0), (d1, e1) in itertools.product(leaves(0), leaves(1)):
            terms.append(('T2', '%s(%s,%s)' % (c, d0, d1), 'trompeloeil::%s(%s, %s)' % (c, e0, e1)))
        sub = lambda i: [l for l in leaves(i) if l[0].split('(')[0] in ('_', '$%d' % i, 'eq', 'lt', 'geT', 'ne')]
        for (d0, e0), (d1, e1), (d2, e2) in itertools.product(sub(0), sub(1), sub(2)):
            terms.append(('T3', '%s(%s,%s,%s)' % (c, d0, d1, d2), 'trompeloeil::%s(%s, %s, %s)' % (c, e0, e1, e2)))
    # depth 2: negated combinators, combinators of negations, combinators of combinators (one leaf family per level)
    fam = lambda i: [l for l in leaves(i) if l[0].split('(')[0] in ('eq', 'lt', '$%d' % i, 'gtT')]
    for c in combs:
        for (d0, e0), (d1, e1) in itertools.product(fam(0), fam(1)):
            terms.append(('T2', '!%s(%s,%s)' % (c, d0, d1), '!trompeloeil::%s(%s, %s)' % (c, e0, e1)))
            if not d0.startswith('$') and not d1.startswith('$'):
                terms.append(('T2', '%s(!%s,%s)' % (c, d0, d1), 'trompeloeil::%s(!%s, %s)' % (c, e0, e1)))
            for c2 in combs:
                terms.append(('T3', '%s(%s(%s,%s),%s)' % (c, c2, d0, d1, 'ne($2)'), 'trompeloeil::%s(trompeloeil::%s(%s, %s), trompeloeil::ne(c))' % (c, c2, e0, e1)))
                terms.append(('T3', '%s($2,%s(%s,%s))' % (c, c2, d0, d1), 'trompeloeil::%s(c, trompeloeil::%s(%s, %s))' % (c, c2, e0, e1)))
    # pointers: *m, *!m, !*m, *comb(...)
    for (d0, e0) in matcher_leaves(0):
        terms.append(('TP', d0, e0))
        terms.append(('TP', '!' + d0, '!' + e0))
        terms.append(('TNP', d0, e0))
    for c in combs:
        for (d0, e0), (d1, e1) in itertools.product(fam(0), fam(1)):
            terms.append(('TP', '%s(%s,%s)' % (c, d0, d1), 'trompeloeil::%s(%s, %s)' % (c, e0, e1)))
    # MEMBER_IS(&S::m, term)
    for (d0, e0) in leaves(0):
        if d0 == '_':
            continue  # MEMBER_IS(&S::m, _) does not compile (ambiguous operator<< in the printer); a wildcard member test is pointless and not a documented form
        terms.append(('TM', d0, e0))
    for c in combs:
        for (d0, e0), (d1, e1) in itertools.product(fam(0), fam(1)):
            terms.append(('TM', '%s(%s,%s)' % (c, d0, d1), 'trompeloeil::%s(%s, %s)' % (c, e0, e1)))
    # depth 3 (thorough tier): combinators of combinators of combinators, negations at every level, pointers to nested terms
    deep = []
    for c1, c2, c3 in itertools.product(combs, repeat=3):
        for (d0, e0), (d1, e1) in itertools.product(fam(0), fam(1)):
            deep.append(('T3', '%s(%s(%s(%s,%s),ne($2)),$2)' % (c1, c2, c3, d0, d1), 'trompeloeil::%s(trompeloeil::%s(trompeloeil::%s(%s, %s), trompeloeil::ne(c)), c)' % (c1, c2, c3, e0, e1)))
    for c1, c2 in itertools.product(combs, repeat=2):
        for (d0, e0), (d1, e1) in itertools.product(fam(0), fam(1)):
            deep.append(('T3', '!%s(!%s(%s,%s),geT($2))' % (c1, c2, d0, d1), '!trompeloeil::%s(!trompeloeil::%s(%s, %s), trompeloeil::ge<int>(c))' % (c1, c2, e0, e1)))
            deep.append(('TP', '!%s(%s(%s,%s),$0)' % (c1, c2, d0, d1), '!trompeloeil::%s(trompeloeil::%s(%s, %s), a)' % (c1, c2, e0, e1)))
            deep.append(('TM', '%s(!%s(%s,%s),$1)' % (c1, c2, d0, d1), 'trompeloeil::%s(!trompeloeil::%s(%s, %s), b)' % (c1, c2, e0, e1)))
    names = []
    NDEEP = 8
    for k in range(NDEEP):
        fn = os.path.join(out, 'c10_deep_%d.cpp' % k)
        names.append(fn)
        with open(fn, 'w') as f:
            f.write('// generated by gen/gen_c10.py - do not edit\n#include "c10_scalar.hpp"\nvoid c10_deep_%d() {\n' % k)
            for (m, d, e) in deep[k::NDEEP]:
                f.write('  %s("%s", %s)\n' % (m, d, e))
            f.write('}\n')
    for k in range(NCHUNK):
        fn = os.path.join(out, 'c10_chunk_%d.cpp' % k)
        names.append(fn)
        with open(fn, 'w') as f:
            f.write('// generated by gen/gen_c10.py - do not edit\n#include "c10_scalar.hpp"\nvoid c10_chunk_%d() {\n' % k)
            for (m, d, e) in terms[k::NCHUNK]:
                f.write('  %s("%s", %s)\n' % (m, d, e))
            f.write('}\n')
    fn = os.path.join(out, 'c10_chunks.cpp')
    names.append(fn)
    with open(fn, 'w') as f:
        f.write('// generated by gen/gen_c10.py - do not edit\n')
        for k in range(NCHUNK):
            f.write('void c10_chunk_%d();\n' % k)
        f.write('void c10_all_chunks() {\n')
        for k in range(NCHUNK):
            f.write('  c10_chunk_%d();\n' % k)
        f.write('}\n')
        for k in range(NDEEP):
            f.write('void c10_deep_%d();\n' % k)
        f.write('void c10_deep_chunks() {\n')
        for k in range(NDEEP):
            f.write('  c10_deep_%d();\n' % k)
        f.write('}\nextern const long c10_generated_terms = %d;\nextern const long c10_generated_deep_terms = %d;\n' % (len(terms), len(deep)))
    print(' '.join(names))


if __name__ == '__main__':
    main()
