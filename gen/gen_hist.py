#!/usr/bin/env python3
"""Generator for engine E1 (histmc): per property it emits
  sites_<P>.cpp        one creation site (= one public-macro expectation statement on its own
                       source line) per (shape, slot) the property's plans use
  plan_<P>_<tier>.txt  the exploration plans: alphabet of fully parameterised operations,
                       configuration prefixes, depths, comparison mask
Usage: gen_hist.py <PROPERTY> <outdir>
"""
import itertools
import os
import sys

INF = 255
NSLOT = 4
F1, G1, F2, V1, R1, CR1, SV1, CF1, Z0 = range(9)
MK = dict(ANY=0, EQ=1, LT=2, VAL=3, NE=4, GE=5, ANYM=6)
TF = dict(RT=0, DEFAULT=1, N=2, LH=3, ATLEAST=4, ATMOST=5, ALLOW=6, FORBID=7, RT1=8)
ACT = dict(RET=0, THROW_INT=1, THROW_STD=2, NONE=3, RETREF=4, RETCAP=5, RETSTR=6)
MOCK = dict(M=0, MV=1, W=2)
(OP_CREATE, OP_RELEASE, OP_CALL, OP_DESTROY_MOCK, OP_MOVE_MOCK, OP_DESTROY_SEQ, OP_MOVE_SEQ, OP_NEW_WATCHED, OP_DELETE_WATCHED,
 OP_COPY_WATCHED, OP_MOVECONS_WATCHED, OP_ASSIGN_WATCHED, OP_MOVEASSIGN_WATCHED, OP_MONITOR, OP_PUSH_TRACER, OP_POP_TRACER,
 OP_SET_REPORTER, OP_ASSIGN_SEQ, OP_ARM_OK, OP_ARM_REPORTER) = range(20)

F_KIND, F_HANDLER, F_REPCOUNT, F_REPCULPRIT, F_REPDETAIL, F_OKREP, F_TRACE, F_CLOG, F_QEXP, F_QSEQ, F_MISC = [1 << i for i in range(11)]
F_REPORTS = F_REPCOUNT | F_REPCULPRIT | F_REPDETAIL
F_ALL = (1 << 11) - 1

FN_NAME = {F1: 'f', F2: 'f', G1: 'g', V1: 'v', R1: 'r', CR1: 'cr', SV1: 'sv', CF1: 'f', Z0: 'z'}


class Gen:
    def __init__(self):
        self.shapes = []      # list of tuples
        self.shape_idx = {}
        self.used = set()     # (shape, slot)

    def shape(self, mock='M', fn=F1, mk1='EQ', mk2='ANY', nwith=0, nse=0, seqar=0, tform='RT', tl=0, th=0, act=None, clauses=None, vform=False):
        if act is None:
            act = 'NONE' if (fn == V1 or tform == 'FORBID' or (tform in ('N', 'ATMOST') and tl == 0) or mock == 'W') else ('RETREF' if fn == R1 else ('RETCAP' if fn == CR1 else ('RETSTR' if fn == SV1 else 'RET')))
        if clauses is None:
            clauses = 'W' * nwith + ('Q' if seqar else '') + ('T' if tform not in ('DEFAULT', 'ALLOW', 'FORBID') else '') + 'S' * nse + ('A' if act != 'NONE' else '')
        if vform and not clauses.startswith('v'):
            clauses = 'v' + clauses   # the variadic macro form NAMED_xxx_CALL_V(obj, func, .CLAUSE(...) ...): a separate set of macros
        key = (MOCK[mock], fn, MK[mk1], MK[mk2], nwith, nse, seqar, TF[tform], tl, th, ACT[act], clauses)
        if key not in self.shape_idx:
            self.shape_idx[key] = len(self.shapes)
            self.shapes.append(key)
        return self.shape_idx[key]

    # ---- operations -> 21 ints ----
    def op(self, kind, slot=0, shape=0, obj=0, fn=0, a1=0, a2=0, k1=0, k2=0, lo=1, hi=1, s1=0, s2=1, wmode=(0, 0, 0), semode=(0, 0, 0), actmode=0):
        if kind in (OP_CREATE, OP_MONITOR):
            self.used.add((shape, slot))
        return (kind, slot, shape, obj, fn, a1, a2, k1, k2, lo, hi, s1, s2) + tuple(wmode) + tuple(semode) + (actmode, 0)

    def create(self, slot, shape, obj=0, k1=0, k2=0, lo=1, hi=1, s1=0, s2=1, wmode=(0, 0, 0), semode=(0, 0, 0), actmode=0):
        return self.op(OP_CREATE, slot=slot, shape=shape, obj=obj, fn=self.shapes[shape][1], k1=k1, k2=k2, lo=lo, hi=hi, s1=s1, s2=s2, wmode=wmode, semode=semode, actmode=actmode)

    def monitor(self, slot, shape, w=0, s1=0, s2=1):
        return self.op(OP_MONITOR, slot=slot, shape=shape, obj=w, s1=s1, s2=s2)

    def call(self, obj, fn, a1, a2=0, in_catch=False, unwinding=False, other_thread=False):
        return self.op(OP_CALL, obj=obj, fn=fn, a1=a1, a2=a2, k1=3 if other_thread else (2 if unwinding else (1 if in_catch else 0)))

    def release(self, slot):
        return self.op(OP_RELEASE, slot=slot)

    # ---- C++ emission ----
    def matcher_expr(self, mk, operand):
        return {0: 'trompeloeil::_', 1: 'trompeloeil::eq(int(%s))' % operand, 2: 'trompeloeil::lt(int(%s))' % operand, 3: 'int(%s)' % operand,
                4: 'trompeloeil::ne(int(%s))' % operand, 5: 'trompeloeil::ge(int(%s))' % operand, 6: 'ANY(int)'}[mk]

    def site_source(self, si, slot):
        mock, fn, mk1, mk2, nwith, nse, seqar, tform, tl, th, act, clauses = self.shapes[si]
        K = slot
        seqargs = '*pw->seq[op.s1]' if seqar == 1 else '*pw->seq[op.s1], *pw->seq[op.s2]'
        if mock == MOCK['W']:
            text = 'NAMED_REQUIRE_DESTRUCTION(*pw->w[op.obj])'
            body = 'return NAMED_REQUIRE_DESTRUCTION(*pw->w[op.obj])'
            if seqar:
                body += '.IN_SEQUENCE(%s)' % seqargs
            return body + ';', text
        args = self.matcher_expr(mk1, 'op.k1')
        if fn == F2:
            args += ', ' + self.matcher_expr(mk2, 'op.k2')
        if fn == Z0:
            args = ''
        callexpr = '%s(%s)' % (FN_NAME[fn], args)
        var = 'm_s%d' % K
        macro = {TF['ALLOW']: 'NAMED_ALLOW_CALL', TF['FORBID']: 'NAMED_FORBID_CALL'}.get(tform, 'NAMED_REQUIRE_CALL')
        text = '%s.%s' % (var, callexpr)
        vform = clauses.startswith('v')
        chain = '' if vform else '%s(%s, %s)' % (macro, var, callexpr)
        wi = si_ = 0
        for c in clauses.lstrip('v'):
            if c == 'W':
                chain += '.%s(cur()->hw(%d,%d,_1))' % ('WITH' if wi % 2 == 0 else 'LR_WITH', K, wi)
                wi += 1
            elif c == 'S':
                chain += '.%s(cur()->hs(%d,%d,_1))' % ('SIDE_EFFECT' if si_ % 2 == 0 else 'LR_SIDE_EFFECT', K, si_)
                si_ += 1
            elif c == 'Q':
                chain += '.IN_SEQUENCE(%s)' % seqargs
            elif c == 'T':
                if tform == TF['RT']:
                    chain += '.RT_TIMES(size_t(op.lo), op.hi == 255 ? ~size_t(0) : size_t(op.hi))'
                elif tform == TF['RT1']:
                    chain += '.RT_TIMES(size_t(op.lo))'
                elif tform == TF['N']:
                    chain += '.TIMES(%d)' % tl
                elif tform == TF['LH']:
                    chain += '.TIMES(%d, %d)' % (tl, th)
                elif tform == TF['ATLEAST']:
                    chain += '.TIMES(AT_LEAST(%d))' % tl
                elif tform == TF['ATMOST']:
                    chain += '.TIMES(AT_MOST(%d))' % tl
            elif c == 'A':
                chain += {ACT['RET']: '.RETURN(cur()->hr(%d))' % K, ACT['RETREF']: '.LR_RETURN(cur()->hrr(%d))' % K,
                          ACT['THROW_INT']: '.THROW(cur()->ht(%d))' % K, ACT['THROW_STD']: '.THROW(cur()->hte(%d))' % K,
                          ACT['RETCAP']: '.RETURN(v_s%d)' % K, ACT['RETSTR']: '.RETURN(cur()->hstr(%d))' % K}[act]
        if vform:
            chain = '%s_V(%s, %s%s)' % (macro, var, callexpr, (', ' + chain) if chain else '')
        getter = 'pw->M_(op.obj)' if mock == MOCK['M'] else 'pw->MV_(op.obj)'
        if fn == CF1:
            getter = 'static_cast<const %s&>(%s)' % ('M' if mock == MOCK['M'] else 'MV', getter)   # the expectation is placed through a const reference: the const overload
        pre = 'int v_s%d = %d; ' % (K, 700 + K) if act == ACT['RETCAP'] else ''
        return '%sauto& %s = %s; return %s;' % (pre, var, getter, chain), text

    def write_sites(self, path):
        lines = ['// generated by gen/gen_hist.py - do not edit', '#include "world.hpp"', 'namespace hm {', 'namespace {']
        entries = {}
        for (si, slot) in sorted(self.used):
            body, text = self.site_source(si, slot)
            lineno = len(lines) + 1
            lines.append('static E site_%d_%d(World* pw, const Op& op) { (void)pw; (void)op; %s }' % (si, slot, body))
            entries[(si, slot)] = (lineno, text)
        lines.append('}  // namespace')
        lines.append('const Shape g_shapes[] = {')
        for sh in self.shapes:
            lines.append('  {%s, "%s"},' % (', '.join(str(x) for x in sh[:11]), sh[11]))
        if not self.shapes:
            lines.append('  {0,0,0,0,0,0,0,0,0,0,0,""},')
        lines.append('};')
        lines.append('const int g_nshapes = %d;' % len(self.shapes))
        lines.append('struct SiteEntry { int shape, slot; SiteFn fn; Site site; };')
        lines.append('static const SiteEntry g_sites[] = {')
        for (si, slot), (lineno, text) in sorted(entries.items()):
            lines.append('  {%d, %d, &site_%d_%d, {__FILE__, %dUL, "%s"}},' % (si, slot, si, slot, lineno, text.replace('\\', '\\\\').replace('"', '\\"')))
        lines.append('  {-1, -1, nullptr, {"", 0UL, ""}}')
        lines.append('};')
        lines.append('static const SiteEntry& find_site(int shape, int slot) { for (const SiteEntry* e = g_sites; e->fn; ++e) if (e->shape == shape && e->slot == slot) return *e; fprintf(stderr, "no site for shape %d slot %d\\n", shape, slot); abort(); }')
        lines.append('const Site& site_of(int shape, int slot) { return find_site(shape, slot).site; }')
        lines.append('bool site_exists(int shape, int slot) { for (const SiteEntry* e = g_sites; e->fn; ++e) if (e->shape == shape && e->slot == slot) return true; return false; }')
        lines.append('SiteFn site_fn(int shape, int slot) { return find_site(shape, slot).fn; }')
        lines.append('}  // namespace hm')
        with open(path, 'w') as f:
            f.write('\n'.join(lines) + '\n')

    @staticmethod
    def write_plans(path, plans):
        with open(path, 'w') as f:
            for p in plans:
                f.write('plan %s %x %d %d %d\n' % (p['name'], p['mask'], p['du'], p['dm'], len(p['alphabet'])))
                for op in p['alphabet']:
                    f.write(' '.join(str(x) for x in op) + '\n')
                prefixes = p.get('prefixes') or [[]]
                f.write('%d\n' % len(prefixes))
                for pre in prefixes:
                    f.write('%d\n' % len(pre))
                    for op in pre:
                        f.write(' '.join(str(x) for x in op) + '\n')


# =====================================================================================
# plans
# =====================================================================================

BOUNDS_Q = [(1, 1), (0, INF), (1, INF), (2, 2)]
BOUNDS_T = BOUNDS_Q + [(1, 2), (0, 1)]


def seq_configs(g, n, bounds, with_monitors=False, any_matchers=True, reduce_symmetry=True, masks=(0, 1, 2, 3), times_first=()):
    """All assignments of n expectations (slot i, matcher eq(i) or _, on obj0.f) to subsets of 2 sequences with bounds.
    times_first: slots whose expectation states its bounds BEFORE IN_SEQUENCE (the sequence handler then takes the bounds over)."""
    sh = {}
    for mk in ('EQ', 'ANY'):
        for ar in (0, 1, 2):
            sh[(mk, ar)] = g.shape(fn=F1, mk1=mk, seqar=ar, tform='RT')
            if ar:
                sh[(mk, ar, 'TQ')] = g.shape(fn=F1, mk1=mk, seqar=ar, tform='RT', clauses='TQA')
    msh = {ar: g.shape(mock='W', seqar=ar) for ar in (0, 1, 2)} if with_monitors else {}
    per = []
    for mask in masks:
        for b in bounds:
            for mk in (('EQ', 'ANY') if any_matchers else ('EQ',)):
                per.append(('E', mask, b, mk))
        if with_monitors and mask:
            per.append(('D', mask, (1, 1), None))
    out = []
    for combo in itertools.product(per, repeat=n):
        masks = [c[1] for c in combo]
        if reduce_symmetry:
            # s0 <-> s1 symmetry: keep the assignment whose first one-sequence member names s0
            first = next((m for m in masks if m in (1, 2)), None)
            if first == 2:
                continue
        if sum(1 for m in masks if m) < 2:
            continue  # at least two sequenced members, otherwise nothing is ordered
        pre = []
        nw = 0
        for i, (kind, mask, b, mk) in enumerate(combo):
            ar = 0 if mask == 0 else (2 if mask == 3 else 1)
            s1 = 1 if mask == 2 else 0
            if kind == 'E':
                pre.append(g.create(i, sh[(mk, ar, 'TQ')] if (ar and i in times_first) else sh[(mk, ar)], obj=0, k1=i, lo=b[0], hi=b[1], s1=s1, s2=1))
            else:
                pre.append(g.op(OP_NEW_WATCHED, obj=nw))
                pre.append(g.monitor(i, msh[ar], w=nw, s1=s1, s2=1))
                nw += 1
        out.append(pre)
    return out


def plans_C05(g, tier):
    plans = []
    n = 3
    alpha = [g.call(0, F1, a) for a in range(n)] + [g.release(i) for i in range(n)]
    mask = F_KIND | F_HANDLER | F_REPCOUNT | F_REPCULPRIT | F_QEXP | F_QSEQ | F_CLOG
    if tier == 'quick':
        plans.append(dict(name='seq3', mask=mask, du=0, dm=5, alphabet=alpha, prefixes=seq_configs(g, 3, BOUNDS_Q)))
        plans.append(dict(name='seq3_times_first', mask=mask, du=0, dm=5, alphabet=alpha,
                          prefixes=seq_configs(g, 3, [(1, 1), (0, INF), (2, 2)], any_matchers=False, times_first=(0, 1, 2)) +
                                   seq_configs(g, 3, [(1, 1), (0, INF), (2, 2)], any_matchers=False, times_first=(1,))))
        tp, ta = two_object_prefixes(g)
        plans.append(dict(name='seq_two_objects', mask=mask, du=0, dm=4, alphabet=ta, prefixes=tp))
        malpha = alpha + [g.op(OP_DELETE_WATCHED, obj=w) for w in range(2)]
        plans.append(dict(name='seq3mon', mask=mask, du=0, dm=5, alphabet=malpha,
                          prefixes=[p for p in seq_configs(g, 3, [(1, 1), (0, INF)], with_monitors=True, any_matchers=False) if any(o[0] == OP_MONITOR for o in p)]))
    else:
        plans.append(dict(name='seq3', mask=mask, du=0, dm=7, alphabet=alpha, prefixes=seq_configs(g, 3, BOUNDS_T)))
        plans.append(dict(name='seq3_times_first', mask=mask, du=0, dm=6, alphabet=alpha,
                          prefixes=seq_configs(g, 3, BOUNDS_Q, any_matchers=False, times_first=(0, 1, 2)) + seq_configs(g, 3, BOUNDS_Q, any_matchers=False, times_first=(1,)) +
                                   seq_configs(g, 3, BOUNDS_Q, any_matchers=False, times_first=(0, 2))))
        tp, ta = two_object_prefixes(g)
        plans.append(dict(name='seq_two_objects', mask=mask, du=0, dm=6, alphabet=ta, prefixes=tp))
        malpha = alpha + [g.op(OP_DELETE_WATCHED, obj=w) for w in range(3)]
        plans.append(dict(name='seq3mon', mask=mask, du=0, dm=6, alphabet=malpha,
                          prefixes=[p for p in seq_configs(g, 3, BOUNDS_Q, with_monitors=True, any_matchers=False) if any(o[0] == OP_MONITOR for o in p)]))
        # four expectations: one or two sequences, every assignment, required / optional / two-call bounds
        alpha4 = [g.call(0, F1, a) for a in range(4)] + [g.release(i) for i in range(4)]
        plans.append(dict(name='seq4', mask=mask, du=0, dm=6, alphabet=alpha4, prefixes=seq_configs(g, 4, [(1, 1), (0, INF), (2, 2)], any_matchers=False)))
    return plans


def plans_C06(g, tier):
    n = 3
    alpha = [g.call(0, F1, a) for a in range(n)] + [g.release(i) for i in range(n)] + [g.op(OP_DESTROY_SEQ, s1=q) for q in (0, 1)] + [g.op(OP_MOVE_SEQ, s1=0), g.op(OP_ASSIGN_SEQ, s1=0), g.op(OP_ASSIGN_SEQ, s1=0, s2=1, k1=1), g.op(OP_ASSIGN_SEQ, s1=1, s2=0, k1=1),
                                                                                                                                                   g.op(OP_ASSIGN_SEQ, s1=0, s2=1, k1=2), g.op(OP_DESTROY_MOCK, obj=0)]
    mask = F_QSEQ | F_REPCOUNT | F_REPCULPRIT | F_REPDETAIL | F_KIND
    if tier == 'quick':
        return [dict(name='seq3teardown', mask=mask, du=0, dm=5, alphabet=alpha, prefixes=seq_configs(g, 3, [(1, 1), (0, INF), (2, 2)], any_matchers=False)),
                dict(name='seq3mon_teardown', mask=mask, du=0, dm=5, alphabet=alpha + [g.op(OP_DELETE_WATCHED, obj=w) for w in range(2)],
                     prefixes=[p for p in seq_configs(g, 3, [(1, 1)], with_monitors=True, any_matchers=False) if any(o[0] == OP_MONITOR for o in p)])]
    return [dict(name='seq3teardown', mask=mask, du=0, dm=7, alphabet=alpha, prefixes=seq_configs(g, 3, BOUNDS_T, any_matchers=False)),
            dict(name='seq3mon_teardown', mask=mask, du=0, dm=6, alphabet=alpha + [g.op(OP_DELETE_WATCHED, obj=w) for w in range(3)],
                 prefixes=[p for p in seq_configs(g, 3, [(1, 1), (0, INF)], with_monitors=True, any_matchers=False) if any(o[0] == OP_MONITOR for o in p)])]



# ---------------------------------------------------------------- C01
def c01_alphabet(g, slots, objs_mv=True):
    """create / release / call / move / destroy over overlapping expectations on obj0.f, obj0.g and a movable mock."""
    A = []
    variants = []
    for mk in ('ANY', 'EQ', 'LT'):
        for b in [(1, 1), (0, INF), (0, 0), (1, 2)]:
            variants.append(dict(sh=dict(fn=F1, mk1=mk), lo=b[0], hi=b[1]))
    for b in [(1, 1), (0, INF)]:
        variants.append(dict(sh=dict(fn=F1, mk1='ANY', nwith=1), lo=b[0], hi=b[1], wmode=(2, 0, 0)))
    variants.append(dict(sh=dict(fn=F1, mk1='EQ', act='THROW_INT'), lo=1, hi=1))
    variants.append(dict(sh=dict(fn=F1, mk1='ANY', act='THROW_INT', nse=1), lo=0, hi=INF))
    variants.append(dict(sh=dict(fn=F1, mk1='ANY', seqar=1), lo=1, hi=1))
    variants.append(dict(sh=dict(fn=F1, mk1='EQ', seqar=1), lo=0, hi=INF))
    variants.append(dict(sh=dict(fn=G1, mk1='ANY', nse=1), lo=1, hi=1))
    variants.append(dict(sh=dict(fn=F1, mk1='ANY', seqar=2), lo=1, hi=2))
    variants.append(dict(sh=dict(fn=F1, mk1='ANY', tform='FORBID', nwith=1, vform=True), lo=0, hi=0, wmode=(2, 0, 0)))   # NAMED_FORBID_CALL_V(m, f(_), .WITH(_1 != 2))
    variants.append(dict(sh=dict(fn=F1, mk1='EQ', tform='ALLOW', nse=1, vform=True), lo=0, hi=INF))
    variants.append(dict(sh=dict(fn=CF1, mk1='ANY', nse=1), lo=1, hi=2))
    variants.append(dict(sh=dict(fn=F1, mk1='ANYM'), lo=1, hi=1))   # NAMED_REQUIRE_CALL(m, f(ANY(int))): a macro inside the expectation text   # the const overload f(int) const: calls through a const reference only
    for slot in slots:
        for v in variants:
            A.append(g.create(slot, g.shape(**v['sh']), obj=0, k1=1, lo=v['lo'], hi=v['hi'], s1=0, wmode=v.get('wmode', (0, 0, 0))))
        if objs_mv:
            for b in [(1, 1), (0, INF)]:
                A.append(g.create(slot, g.shape(mock='MV', fn=F1, mk1='ANY'), obj=2, k1=1, lo=b[0], hi=b[1]))
            A.append(g.create(slot, g.shape(mock='MV', fn=F1, mk1='ANY', seqar=1), obj=2, k1=1, lo=1, hi=1, s1=0))  # a sequence spanning two mock objects
        A.append(g.release(slot))
    A += [g.call(0, F1, a) for a in (0, 1, 2)] + [g.call(0, G1, 1), g.call(0, CF1, 1)]
    if objs_mv:
        A += [g.call(2, F1, 1), g.call(3, F1, 1), g.op(OP_MOVE_MOCK, obj=2, k1=3), g.op(OP_MOVE_MOCK, obj=3, k1=2), g.op(OP_DESTROY_MOCK, obj=2), g.op(OP_DESTROY_MOCK, obj=3)]
    A.append(g.op(OP_DESTROY_MOCK, obj=0))
    A.append(g.op(OP_ASSIGN_SEQ, s1=0))
    return A


M_C01 = F_KIND | F_REPCOUNT | F_CLOG | F_QEXP


def plans_C01(g, tier):
    # acceptance when a destruction requirement is one of the sequence steps (the object may die in or out of order)
    mon_alpha = [g.call(0, F1, a) for a in (0, 1, 2)] + [g.op(OP_DELETE_WATCHED, obj=0), g.op(OP_DESTROY_SEQ, s1=0)] + [g.release(i) for i in range(4)]
    mon_plan = dict(name='accept_with_monitor', mask=M_C01, du=0, dm=4 if tier == 'quick' else 6, alphabet=mon_alpha, prefixes=monitor_prefixes(g))
    if tier == 'quick':
        return [dict(name='hist2', mask=M_C01, du=2, dm=6, alphabet=c01_alphabet(g, (0, 1))), mon_plan]
    return [dict(name='hist2', mask=M_C01, du=3, dm=8, alphabet=c01_alphabet(g, (0, 1))),
            dict(name='hist3', mask=M_C01, du=2, dm=6, alphabet=c01_alphabet(g, (0, 1, 2))), mon_plan]


# ---------------------------------------------------------------- C02
def c02_configs(g, matchers, bounds, masks=(0, 1, 2, 3), with_variant=True):
    per = []
    for mk in matchers:
        for b in bounds:
            for mask in masks:
                per.append((mk, b, mask, 0))
    if with_variant:
        for mask in (0, 1):
            per.append(('ANY', (0, INF), mask, 1))   # WITH(_1 >= 1)
    out = []
    for combo in itertools.product(per, repeat=3):
        first = next((c[2] for c in combo if c[2] in (1, 2)), None)
        if first == 2:
            continue
        pre = []
        for i, (mk, b, mask, w) in enumerate(combo):
            ar = 0 if mask == 0 else (2 if mask == 3 else 1)
            sh = g.shape(fn=F1, mk1=mk, seqar=ar, nwith=w, nse=1)
            pre.append(g.create(i, sh, obj=0, k1=1 if mk == 'EQ' else 2, lo=b[0], hi=b[1], s1=1 if mask == 2 else 0, s2=1, wmode=(3, 0, 0)))
        out.append(pre)
    return out


M_C02 = F_KIND | F_HANDLER | F_CLOG | F_QEXP


def two_object_prefixes(g):
    """Two mock objects sharing a sequence: the death of one object does not release the steps registered on it."""
    two_pre = []
    for b0, b1 in itertools.product([(1, 1), (0, INF), (1, 2)], repeat=2):
        for ar2 in (0, 1):
            two_pre.append([g.create(0, g.shape(fn=F1, mk1='ANY', seqar=1, nse=1), obj=0, lo=b0[0], hi=b0[1], s1=0),
                            g.create(1, g.shape(fn=F1, mk1='ANY', seqar=1, nse=1), obj=1, lo=b1[0], hi=b1[1], s1=0),
                            g.create(2, g.shape(fn=F1, mk1='EQ', seqar=ar2, nse=1), obj=1, k1=1, lo=0, hi=INF, s1=0),
                            g.create(3, g.shape(fn=F1, mk1='ANY', seqar=0, nse=1), obj=1, lo=0, hi=INF)][::1])
    two_alpha = [g.call(0, F1, 1), g.call(1, F1, 1), g.call(1, F1, 2), g.op(OP_DESTROY_MOCK, obj=0), g.op(OP_DESTROY_MOCK, obj=1), g.op(OP_DESTROY_SEQ, s1=0)] + [g.release(i) for i in range(4)]
    return two_pre, two_alpha


def monitor_prefixes(g):
    """A destruction requirement inside the sequences, between two call steps: once the object has died the step is no longer pending
    and must not count as a passed-over step; the steps before it are passed for good."""
    mon_pre = []
    for m1, m2, m3 in itertools.product((1, 3), (1, 2, 3), (0, 1, 3)):
        for b in [(0, INF), (1, 2)]:
            ar = lambda m: 0 if m == 0 else (2 if m == 3 else 1)
            mon_pre.append([g.create(0, g.shape(fn=F1, mk1='ANY', seqar=ar(m1), nse=1), obj=0, lo=b[0], hi=b[1], s1=1 if m1 == 2 else 0, s2=1),
                            g.op(OP_NEW_WATCHED, obj=0), g.monitor(1, g.shape(mock='W', seqar=ar(m2)), w=0, s1=1 if m2 == 2 else 0, s2=1),
                            g.create(2, g.shape(fn=F1, mk1='ANY', seqar=ar(m3), nse=1), obj=0, lo=1, hi=2, s1=1 if m3 == 2 else 0, s2=1),
                            g.create(3, g.shape(fn=F1, mk1='EQ', seqar=0, nse=1), obj=0, k1=1, lo=0, hi=INF)])
    return mon_pre


def plans_C02(g, tier):
    calls = [g.call(0, F1, a) for a in (0, 1, 2)]
    rel = [g.release(i) for i in range(3)]
    # isolation: expectations on another object, another function, another overload are never touched
    iso_pre = []
    for tgt in range(3):
        others = [g.create(1, g.shape(fn=F1, mk1='ANY', nse=1), obj=1, lo=1, hi=2),
                  g.create(2, g.shape(fn=G1, mk1='ANY', nse=1), obj=0, lo=1, hi=2),
                  g.create(3, g.shape(fn=F2, mk1='ANY', mk2='ANY', nse=1), obj=0, lo=1, hi=2)]
        for mk in ('ANY', 'EQ'):
            for b in [(1, 1), (0, INF), (0, 0)]:
                iso_pre.append([g.create(0, g.shape(fn=F1, mk1=mk, nse=0 if b == (0, 0) else 1), obj=0, k1=1, lo=b[0], hi=b[1])] + others)
    # ... and the const overload of the same name and signature is a function of its own
    for mk in ('ANY', 'EQ'):
        for b in [(1, 1), (0, INF), (0, 0)]:
            for bc in [(1, 2), (0, 0)]:
                iso_pre.append([g.create(0, g.shape(fn=F1, mk1=mk, nse=0 if b == (0, 0) else 1), obj=0, k1=1, lo=b[0], hi=b[1]),
                                g.create(1, g.shape(fn=CF1, mk1='ANY', nse=0 if bc == (0, 0) else 1), obj=0, lo=bc[0], hi=bc[1]),
                                g.create(2, g.shape(fn=CF1, mk1='ANY', nse=1), obj=1, lo=1, hi=2),
                                g.create(3, g.shape(fn=F2, mk1='ANY', mk2='ANY', nse=1), obj=0, lo=1, hi=2)])
    iso_alpha = calls + [g.call(1, F1, 1), g.call(0, G1, 1), g.call(0, F2, 1, 1), g.call(1, G1, 1), g.call(1, F2, 1, 1), g.call(0, CF1, 1), g.call(1, CF1, 1)] + [g.release(i) for i in range(4)]
    # a movable mock: the order of its expectations (newest first) survives any number of moves
    mv_pre = []
    for mks in itertools.product(('ANY', 'EQ', 'LT'), repeat=3):
        for b in [(0, INF), (1, 2)]:
            mv_pre.append([g.create(i, g.shape(mock='MV', fn=F1, mk1=mk, nse=1), obj=2, k1=1 if mk == 'EQ' else 2, lo=b[0], hi=b[1]) for i, mk in enumerate(mks)])
    mv_alpha = [g.call(2, F1, a) for a in (0, 1, 2)] + [g.call(3, F1, a) for a in (0, 1, 2)] + [g.op(OP_MOVE_MOCK, obj=2, k1=3), g.op(OP_MOVE_MOCK, obj=3, k1=2)] + [g.release(i) for i in range(3)]
    mv_plan = dict(name='sel_moved_mock', mask=M_C02, du=0, dm=4 if tier == 'quick' else 6, alphabet=mv_alpha, prefixes=mv_pre)
    mon_pre = monitor_prefixes(g)
    mon_alpha = calls + [g.op(OP_DELETE_WATCHED, obj=0), g.op(OP_DESTROY_SEQ, s1=0), g.op(OP_DESTROY_SEQ, s1=1)] + [g.release(i) for i in range(4)]  # a sequence object may die first: its steps are then unordered
    two_pre, two_alpha = two_object_prefixes(g)
    two_plan = dict(name='sel_two_objects', mask=M_C02, du=0, dm=4 if tier == 'quick' else 6, alphabet=two_alpha, prefixes=two_pre)
    mon_plan = dict(name='sel_with_monitor', mask=M_C02, du=0, dm=4 if tier == 'quick' else 6, alphabet=mon_alpha, prefixes=mon_pre)
    if tier == 'quick':
        return [mon_plan, two_plan, mv_plan, dict(name='sel3', mask=M_C02, du=0, dm=4, alphabet=calls + rel, prefixes=c02_configs(g, ('ANY', 'EQ', 'LT'), [(0, INF), (1, 2)])),
                dict(name='isolation', mask=M_C02, du=0, dm=5, alphabet=iso_alpha, prefixes=iso_pre)]
    return [mon_plan, two_plan, mv_plan, dict(name='sel3', mask=M_C02, du=0, dm=6, alphabet=calls + rel, prefixes=c02_configs(g, ('ANY', 'EQ', 'LT'), [(0, INF), (1, 2), (1, 1)])),
            dict(name='isolation', mask=M_C02, du=0, dm=7, alphabet=iso_alpha, prefixes=iso_pre)]


# ---------------------------------------------------------------- C03
def c03_forms(g):
    """(shape kwargs, lo, hi) for every bound form: compile-time and run-time."""
    forms = []
    forms.append((dict(tform='DEFAULT'), 1, 1))
    forms.append((dict(tform='ALLOW'), 0, INF))
    forms.append((dict(tform='FORBID'), 0, 0))
    for n in range(0, 4):
        forms.append((dict(tform='N', tl=n), n, n))
        forms.append((dict(tform='ATLEAST', tl=n), n, INF))
        forms.append((dict(tform='ATMOST', tl=n), 0, n))
    for l in range(0, 4):
        for h in range(l, 4):
            if h > 0 and l != h:
                forms.append((dict(tform='LH', tl=l, th=h), l, h))
    for l in range(0, 4):
        for h in list(range(l, 4)) + [INF]:
            forms.append((dict(tform='RT'), l, h))
    for n in range(0, 4):
        forms.append((dict(tform='RT1'), n, n))     # RT_TIMES(n): exactly n
    return forms


M_C03 = F_KIND | F_HANDLER | F_QEXP | F_REPCOUNT | F_REPCULPRIT | F_REPDETAIL | F_QSEQ


def plans_C03(g, tier):
    pre = []
    for kw, lo, hi in c03_forms(g):
        forbidden = hi == 0
        tested = lambda slot, mk='ANY', kw=kw, lo=lo, hi=hi, forbidden=forbidden: g.create(slot, g.shape(fn=F1, mk1=mk, **kw), obj=0, k1=1, lo=lo, hi=hi)
        allow = lambda slot, mk='ANY': g.create(slot, g.shape(fn=F1, mk1=mk, tform='ALLOW'), obj=0, k1=1)
        pre.append([tested(0)])                       # alone
        pre.append([allow(0), tested(1)])             # stacked over an older ALLOW_CALL
        pre.append([tested(0), allow(1, 'EQ')])       # under a newer ALLOW_CALL that claims argument 1 only
        pre.append([g.create(0, g.shape(fn=F1, mk1='ANY', tform='RT'), obj=0, lo=1, hi=2), tested(1)])  # two stacked bounded expectations (both can saturate)
        pre.append([tested(0, 'EQ')])                 # exact-value matcher: other arguments are no-match calls that name it
        if kw['tform'] not in ('DEFAULT', 'ALLOW', 'FORBID') and not (hi == 0):
            # the same bounds on a sequenced expectation, stated before or after IN_SEQUENCE (the sequence handler takes them over)
            for order in ('TQA', 'QTA'):
                pre.append([g.create(0, g.shape(fn=F1, mk1='ANY', seqar=1, clauses=order, **kw), obj=0, k1=1, lo=lo, hi=hi, s1=0)])
        vtested = lambda slot, kw=kw, lo=lo, hi=hi: g.create(slot, g.shape(fn=F1, mk1='ANY', vform=True, **kw), obj=0, k1=1, lo=lo, hi=hi)
        pre.append([vtested(0)])                      # the variadic macro form of the same expectation
        pre.append([g.create(0, g.shape(fn=F1, mk1='ANY', tform='ALLOW', vform=True), obj=0, k1=1), vtested(1)])
        if tier != 'quick':
            pre.append([g.create(0, g.shape(fn=F1, mk1='ANY', tform='RT'), obj=0, lo=0, hi=1), tested(1), g.create(2, g.shape(fn=F1, mk1='EQ', tform='RT'), obj=0, k1=1, lo=1, hi=1)])
    # RT_TIMES(lo > hi): with and without a preceding IN_SEQUENCE
    bad = [g.create(3, g.shape(fn=F1, mk1='ANY', tform='RT'), obj=0, lo=2, hi=1),
           g.create(3, g.shape(fn=F1, mk1='ANY', tform='RT', seqar=1), obj=0, lo=3, hi=0, s1=0),
           g.create(3, g.shape(fn=F1, mk1='ANY', tform='RT', seqar=2, clauses='QTA'), obj=0, lo=1, hi=0, s1=0, s2=1)]
    seqd = g.create(2, g.shape(fn=G1, mk1='ANY', tform='RT', seqar=1), obj=0, lo=1, hi=1, s1=0)
    alpha = [g.call(0, F1, 1), g.call(0, F1, 2), g.release(0), g.release(1)] + bad + [seqd, g.call(0, G1, 1), g.op(OP_DESTROY_SEQ, s1=0), g.op(OP_DESTROY_MOCK, obj=0)]
    alpha.append(g.op(OP_ARM_OK, k1=9))   # the OK callback (user code) repeats the call it is told about: the count of that call is complete by then
    # the same bookkeeping must hold after the mock object has been moved (active and saturated expectations follow it)
    mpre = []
    for kw, lo, hi in c03_forms(g):
        if kw['tform'] in ('RT', 'DEFAULT', 'ALLOW', 'FORBID') or (kw['tform'] == 'N' and kw.get('tl') in (0, 2)):
            mpre.append([g.create(0, g.shape(mock='MV', fn=F1, mk1='ANY', **kw), obj=2, k1=1, lo=lo, hi=hi)])
            mpre.append([g.create(0, g.shape(mock='MV', fn=F1, mk1='ANY', tform='ALLOW'), obj=2), g.create(1, g.shape(mock='MV', fn=F1, mk1='EQ', **kw), obj=2, k1=1, lo=lo, hi=hi)])
    malpha = [g.call(2, F1, 1), g.call(3, F1, 1), g.call(3, F1, 2), g.op(OP_MOVE_MOCK, obj=2, k1=3), g.op(OP_MOVE_MOCK, obj=3, k1=2), g.release(0), g.release(1), g.op(OP_DESTROY_MOCK, obj=3)]
    return [dict(name='bounds', mask=M_C03, du=0, dm=7 if tier == 'quick' else 10, alphabet=alpha, prefixes=pre),
            dict(name='moved', mask=M_C03, du=0, dm=5 if tier == 'quick' else 8, alphabet=malpha, prefixes=mpre)]


# ---------------------------------------------------------------- C04
M_C04 = F_REPCOUNT | F_REPCULPRIT | F_REPDETAIL | F_KIND | F_QEXP   # is_satisfied() is the observable form of "handled count below the lower bound"


def c04_alphabet(g, slots):
    A = []
    for slot in slots:
        for b in [(1, 1), (2, 2), (0, INF), (0, 0), (1, INF)]:
            for mk in ('ANY', 'EQ'):
                A.append(g.create(slot, g.shape(fn=F1, mk1=mk), obj=0, k1=1, lo=b[0], hi=b[1]))
            A.append(g.create(slot, g.shape(mock='MV', fn=F1, mk1='EQ'), obj=2, k1=1, lo=b[0], hi=b[1]))
        A.append(g.create(slot, g.shape(fn=F1, mk1='ANY', seqar=1), obj=0, lo=1, hi=1, s1=0))
        A.append(g.create(slot, g.shape(fn=F1, mk1='EQ', tform='RT1'), obj=0, k1=1, lo=2, hi=2))                 # RT_TIMES(2)
        A.append(g.create(slot, g.shape(fn=F1, mk1='EQ', seqar=1), obj=0, k1=slot % 2, lo=1, hi=1, s1=0))          # sequenced, exact values: a call can be out of order (an earlier fatal report)
        A.append(g.create(slot, g.shape(fn=F1, mk1='EQ', tform='ALLOW', vform=True), obj=0, k1=1, lo=0, hi=INF))   # NAMED_ALLOW_CALL_V(m, f(1)) - the two-argument variadic form
        A.append(g.create(slot, g.shape(fn=F2, mk1='EQ', mk2='ANY'), obj=0, k1=1, lo=2, hi=2))
        A.append(g.release(slot))
    A += [g.call(0, F1, 1), g.call(0, F1, 0), g.call(2, F1, 1), g.call(2, F1, 0), g.call(3, F1, 1), g.call(0, F2, 1, 1), g.call(0, F2, 0, 1)]
    A += [g.op(OP_DESTROY_MOCK, obj=0), g.op(OP_DESTROY_MOCK, obj=2), g.op(OP_DESTROY_MOCK, obj=3), g.op(OP_MOVE_MOCK, obj=2, k1=3)]
    # lifetimes that end by stack unwinding report like any other end of scope
    A += [g.op(OP_RELEASE, slot=slots[0], k1=1), g.op(OP_DESTROY_MOCK, obj=0, k1=1)]
    # the reporter is user code: one that tears the mock down when the first non-fatal report arrives
    A += [g.op(OP_ARM_REPORTER, obj=0), g.op(OP_ARM_REPORTER, obj=2)]
    return A


def plans_C04(g, tier):
    if tier == 'quick':
        return [dict(name='eol2', mask=M_C04, du=2, dm=6, alphabet=c04_alphabet(g, (0, 1)))]
    return [dict(name='eol2', mask=M_C04, du=3, dm=9, alphabet=c04_alphabet(g, (0, 1))),
            dict(name='eol3', mask=M_C04, du=2, dm=6, alphabet=c04_alphabet(g, (0, 1, 2)))]


# ---------------------------------------------------------------- C07
M_C07 = F_KIND | F_REPCOUNT | F_REPCULPRIT | F_REPDETAIL | F_CLOG | F_QEXP | F_HANDLER


def c07_alphabet(g, slots):
    A = []
    for slot in slots:
        for mk in ('ANY', 'EQ', 'LT'):
            A.append(g.create(slot, g.shape(fn=F1, mk1=mk, tform='ALLOW', nse=1), obj=0, k1=1))
        for mk in ('ANY', 'EQ', 'GE'):
            A.append(g.create(slot, g.shape(fn=F1, mk1=mk, tform='FORBID'), obj=0, k1=1))
        A.append(g.create(slot, g.shape(fn=F1, mk1='EQ', tform='N', tl=0), obj=0, k1=1))
        A.append(g.create(slot, g.shape(fn=F1, mk1='NE', tform='RT'), obj=0, k1=1, lo=0, hi=0))
        A.append(g.create(slot, g.shape(fn=F1, mk1='EQ', tform='RT', seqar=1, clauses='TQA'), obj=0, k1=1, lo=0, hi=0, s1=0))   # RT_TIMES(0) then IN_SEQUENCE: still forbidding
        A.append(g.create(slot, g.shape(fn=F1, mk1='EQ', tform='RT1', seqar=1, clauses='QTA'), obj=0, k1=2, lo=0, hi=0, s1=0))  # IN_SEQUENCE then RT_TIMES(0)
        A.append(g.create(slot, g.shape(fn=F1, mk1='EQ', tform='RT', nse=1), obj=0, k1=2, lo=1, hi=1))
        A.append(g.create(slot, g.shape(fn=F2, mk1='EQ', mk2='ANY', tform='FORBID'), obj=0, k1=1))
        A.append(g.create(slot, g.shape(fn=F1, mk1='ANY', tform='FORBID', nwith=1), obj=0, wmode=(2, 0, 0)))            # FORBID_CALL(...).WITH(_1 != 2)
        A.append(g.create(slot, g.shape(fn=F1, mk1='ANYM', tform='FORBID'), obj=0))                                      # NAMED_FORBID_CALL(m, f(ANY(int))): a macro inside the text of the report
        A.append(g.create(slot, g.shape(fn=F1, mk1='ANY', tform='FORBID', nwith=2), obj=0, wmode=(3, 2, 0)))            # FORBID_CALL(...).WITH(_1 >= 1).WITH(_1 != 2): every condition counts
        A.append(g.create(slot, g.shape(mock='MV', fn=F1, mk1='ANY', tform='FORBID'), obj=2))                            # on a movable mock: the stack of expectations follows the object
        A.append(g.create(slot, g.shape(mock='MV', fn=F1, mk1='EQ', tform='ALLOW', nse=1), obj=2, k1=1))
        A.append(g.create(slot, g.shape(fn=F1, mk1='EQ', tform='FORBID', vform=True), obj=0, k1=1))                     # the variadic macro forms
        A.append(g.create(slot, g.shape(fn=F1, mk1='ANY', tform='FORBID', nwith=1, vform=True), obj=0, wmode=(2, 0, 0)))  # NAMED_FORBID_CALL_V(m, f(_), .WITH(_1 != 2))
        A.append(g.create(slot, g.shape(fn=F1, mk1='LT', tform='ALLOW', nse=1, vform=True), obj=0, k1=2))
        # sequenced allowing expectations: a callable-but-not-first-in-line newer expectation must not take a call from an older forbid
        A.append(g.create(slot, g.shape(fn=G1, mk1='ANY', tform='RT', seqar=1), obj=0, lo=1, hi=INF, s1=0))
        A.append(g.create(slot, g.shape(fn=F1, mk1='ANY', tform='RT', seqar=1, nse=1), obj=0, lo=0, hi=INF, s1=0))
        A.append(g.release(slot))
    A += [g.call(0, F1, a) for a in (0, 1, 2)] + [g.call(0, F2, 1, 2), g.call(0, F2, 0, 2), g.call(0, G1, 1)]
    A += [g.call(2, F1, 1), g.call(3, F1, 1), g.call(3, F1, 2), g.op(OP_MOVE_MOCK, obj=2, k1=3), g.op(OP_MOVE_MOCK, obj=3, k1=2)]
    return A


def plans_C07(g, tier):
    if tier == 'quick':
        return [dict(name='forbid3', mask=M_C07, du=2, dm=5, alphabet=c07_alphabet(g, (0, 1, 2)))]
    return [dict(name='forbid3', mask=M_C07, du=3, dm=6, alphabet=c07_alphabet(g, (0, 1, 2))),
            dict(name='forbid4', mask=M_C07, du=2, dm=5, alphabet=c07_alphabet(g, (0, 1, 2, 3)))]


# ---------------------------------------------------------------- C08
M_C08 = F_CLOG | F_HANDLER | F_KIND | F_QEXP


def interleavings(w, s):
    if w == 0 and s == 0:
        return ['']
    out = []
    if w:
        out += ['W' + x for x in interleavings(w - 1, s)]
    if s:
        out += ['S' + x for x in interleavings(w, s - 1)]
    return out


def plans_C08(g, tier):
    maxc = 2 if tier == 'quick' else 3
    pre = []
    shadow = g.create(1, g.shape(fn=F1, mk1='ANY', tform='ALLOW', nwith=1, nse=1), obj=0, wmode=(0, 0, 0))
    shadow_v = g.create(1, g.shape(fn=V1, mk1='ANY', tform='ALLOW', nwith=1, nse=1), obj=0, wmode=(0, 0, 0))
    shadow_r = g.create(1, g.shape(fn=R1, mk1='ANY', tform='ALLOW', nwith=1, nse=1), obj=0, wmode=(0, 0, 0))
    shadow_cr = g.create(1, g.shape(fn=CR1, mk1='ANY', tform='ALLOW', nwith=1, nse=1), obj=0, wmode=(0, 0, 0))
    allow_g = g.create(2, g.shape(fn=G1, mk1='ANY', tform='ALLOW', nse=1), obj=0)
    for w in range(0, maxc + 1):
        for s_ in range(0, maxc + 1):
            if w + s_ > (4 if tier == 'quick' else 5):
                continue
            for order in interleavings(w, s_):
                for fn, act in ((F1, 'RET'), (V1, 'NONE'), (R1, 'RETREF'), (CR1, 'RETCAP'), (F1, 'THROW_INT'), (F1, 'THROW_STD'), (V1, 'THROW_INT')):   # THROW on a void function too
                    if act in ('THROW_STD', 'RETCAP') and (w + s_) > 2:
                        continue
                    clauses = order + 'T' + ('A' if act != 'NONE' else '')
                    sh = g.shape(fn=fn, mk1='ANY', nwith=w, nse=s_, tform='RT', act=act, clauses=clauses)
                    wvecs = list(itertools.product((0, 1, 2), repeat=w))
                    svecs = list(itertools.product((0, 1, 2, 3) if (tier != 'quick' or s_ <= 1) else (0, 1, 2), repeat=s_))
                    for wv in wvecs:
                        for sv in svecs:
                            for am in ((0, 1) if act == 'RET' else (0,)):
                                if tier == 'quick' and am == 1 and (w + s_) > 1:
                                    continue
                                wm = tuple(wv) + (0,) * (3 - w)
                                sm = tuple(sv) + (0,) * (3 - s_)
                                sh_shadow = shadow if fn == F1 else (shadow_v if fn == V1 else (shadow_r if fn == R1 else shadow_cr))
                                pre.append([allow_g, sh_shadow, g.create(0, sh, obj=0, lo=1, hi=2, wmode=wm, semode=sm, actmode=am)])
                                if w >= 1 and am == 0 and act in ('RET', 'NONE') and s_ <= 1:
                                    # positional matcher eq(1): a call with another argument is turned down by the parameter, and the WITH clauses are not consulted at all
                                    she = g.shape(fn=fn, mk1='EQ', nwith=w, nse=s_, tform='RT', act=act, clauses=clauses)
                                    pre.append([allow_g, sh_shadow, g.create(0, she, obj=0, k1=1, lo=1, hi=2, wmode=wm, semode=sm, actmode=am)])
                                    if any(x != 0 for x in wv):
                                        pre.append([allow_g, g.create(0, she, obj=0, k1=1, lo=1, hi=2, wmode=wm, semode=sm, actmode=am)])   # ... nor when the no-match report is composed
                                if w >= 2 and am == 0 and act in ('RET', 'NONE') and any(x != 0 for x in wv):
                                    # no older expectation to fall back on: a turned-down call is a no-match report, which states the first failing WITH
                                    pre.append([allow_g, g.create(0, sh, obj=0, lo=1, hi=2, wmode=wm, semode=sm, actmode=am)])
                                if w + s_ >= 1 and am == 0 and all(x != 3 for x in sv) and act in ('RET', 'NONE', 'THROW_INT'):
                                    shv = g.shape(fn=fn, mk1='ANY', nwith=w, nse=s_, tform='RT', act=act, clauses=clauses, vform=True)
                                    pre.append([allow_g, sh_shadow, g.create(0, shv, obj=0, lo=1, hi=2, wmode=wm, semode=sm, actmode=am)])
    # a side effect that destroys the mock object (the release() / "delete this" pattern): the clauses after it still run, once
    for s_ in (1, 2, 3):
        for pos in range(s_):
            for other in (0, 1):
                for fn, act in ((F1, 'RET'), (V1, 'NONE'), (F1, 'THROW_INT')):
                    sm = [other] * 3; sm[pos] = 5
                    for k in range(s_, 3):
                        sm[k] = 0
                    sh = g.shape(fn=fn, mk1='ANY', nse=s_, tform='RT', act=act)
                    pre.append([allow_g, shadow if fn == F1 else shadow_v, g.create(0, sh, obj=0, lo=1, hi=2, semode=tuple(sm))])
                    pre.append([allow_g, g.create(0, sh, obj=0, lo=2, hi=2, semode=tuple(sm))])     # still below its lower bound when its mock dies
    alpha = [g.call(0, F1, 1), g.call(0, F1, 2), g.call(0, V1, 1), g.call(0, V1, 2), g.call(0, R1, 1), g.call(0, R1, 2), g.call(0, CR1, 1), g.call(0, CR1, 2)]
    # "a call that throws still counts as handled" also for the sequence bookkeeping, and after an earlier no-match report that named the expectation
    spre = []
    for act, nse, sem, am in (('RET', 1, 1, 0), ('RET', 2, 1, 0), ('THROW_INT', 0, 0, 0), ('THROW_STD', 1, 0, 0), ('RET', 0, 0, 1), ('RET', 1, 0, 0)):
        for b in ((1, 1), (1, 2), (2, 2)):
            for mk in ('EQ', 'ANY'):
                tested = g.create(1, g.shape(fn=F1, mk1=mk, nse=nse, seqar=1, tform='RT', act=act), obj=0, k1=1, lo=b[0], hi=b[1], s1=0, semode=(sem, sem, 0), actmode=am)
                opt = g.create(0, g.shape(fn=G1, mk1='ANY', nse=1, seqar=1, tform='RT'), obj=0, lo=0, hi=INF, s1=0)
                after = g.create(2, g.shape(fn=G1, mk1='EQ', nse=1, seqar=1, tform='RT'), obj=0, k1=2, lo=1, hi=1, s1=0)
                spre.append([opt, tested, after])
    salpha = [g.call(0, F1, 1), g.call(0, F1, 0), g.call(0, G1, 1), g.call(0, G1, 2), g.release(1), g.op(OP_DESTROY_SEQ, s1=0)]
    return [dict(name='clauses', mask=M_C08, du=0, dm=3, alphabet=alpha, prefixes=pre),
            dict(name='throwing_in_sequence', mask=M_C08 | F_QSEQ | F_REPCOUNT, du=0, dm=5 if tier == 'quick' else 7, alphabet=salpha, prefixes=spre)]


# ---------------------------------------------------------------- C13
M_C13 = F_REPCOUNT | F_REPCULPRIT | F_QEXP | F_KIND


def c13_alphabet(g, slots, nw):
    A = []
    for w in range(nw):
        A += [g.op(OP_NEW_WATCHED, obj=w), g.op(OP_DELETE_WATCHED, obj=w)]
    A.append(g.op(OP_DELETE_WATCHED, obj=0, k1=1))   # destroyed by stack unwinding (a local of a scope left by an exception): same reports
    for slot in slots:
        for w in range(nw):
            A.append(g.monitor(slot, g.shape(mock='W', seqar=0), w=w))
            A.append(g.monitor(slot, g.shape(mock='W', seqar=1), w=w, s1=0))
        A.append(g.release(slot))
    for (a, b) in [(0, 2), (1, 2)] if nw > 2 else [(0, 1)]:
        A += [g.op(OP_COPY_WATCHED, obj=a, k1=b), g.op(OP_COPY_WATCHED, obj=a, k1=b, k2=1), g.op(OP_MOVECONS_WATCHED, obj=a, k1=b)]
    for (a, b) in ([(0, 1), (1, 0), (0, 2), (2, 0)] if nw > 2 else [(0, 1), (1, 0)]):
        A += [g.op(OP_ASSIGN_WATCHED, obj=a, k1=b), g.op(OP_MOVEASSIGN_WATCHED, obj=a, k1=b)]
    return A


def plans_C13(g, tier):
    if tier == 'quick':
        return [dict(name='watch2', mask=M_C13, du=3, dm=7, alphabet=c13_alphabet(g, (0, 1), 2)),
                dict(name='watch3mon3', mask=M_C13, du=3, dm=6, alphabet=c13_alphabet(g, (0, 1, 2), 3))]
    return [dict(name='watch3', mask=M_C13, du=4, dm=9, alphabet=c13_alphabet(g, (0, 1), 3)),
            dict(name='watch3mon3', mask=M_C13, du=3, dm=8, alphabet=c13_alphabet(g, (0, 1, 2), 3))]


# ---------------------------------------------------------------- C14
M_C14 = F_KIND | F_HANDLER | F_QEXP | F_QSEQ | F_REPCOUNT | F_REPCULPRIT | F_REPDETAIL


def plans_C14(g, tier):
    # population: non-movable mock with a sequenced expectation, movable mock with a bounded one (will saturate),
    # two sequences, watched object with a sequenced monitor, a tracer
    pop = [g.create(0, g.shape(fn=F1, mk1='ANY', seqar=2, tform='RT'), obj=0, lo=1, hi=INF, s1=0, s2=1),
           g.create(1, g.shape(mock='MV', fn=F1, mk1='ANY', tform='RT'), obj=2, lo=1, hi=1),
           g.op(OP_NEW_WATCHED, obj=0),
           g.monitor(2, g.shape(mock='W', seqar=1), w=0, s1=0),
           g.op(OP_PUSH_TRACER, k1=0)]
    # variants with a fourth member: a second expectation in the movable mock's list / a second monitor on the watched object
    pop_mv2 = pop + [g.create(3, g.shape(mock='MV', fn=F1, mk1='EQ', tform='RT'), obj=2, k1=1, lo=1, hi=INF)]
    pop_mon2 = pop + [g.monitor(3, g.shape(mock='W', seqar=0), w=0)]
    pop_small = [g.create(0, g.shape(fn=F1, mk1='ANY', seqar=1, tform='RT'), obj=0, lo=1, hi=INF, s1=0),
                 g.create(1, g.shape(fn=F1, mk1='EQ', tform='RT'), obj=0, k1=1, lo=1, hi=1),
                 g.op(OP_NEW_WATCHED, obj=0),
                 g.monitor(2, g.shape(mock='W', seqar=1), w=0, s1=0)]
    destroy = [g.release(0), g.release(1), g.release(2), g.release(3), g.op(OP_DESTROY_MOCK, obj=0), g.op(OP_DESTROY_MOCK, obj=2), g.op(OP_DESTROY_MOCK, obj=3),
               g.op(OP_MOVE_MOCK, obj=2, k1=3), g.op(OP_MOVE_MOCK, obj=3, k1=2), g.op(OP_DESTROY_SEQ, s1=0), g.op(OP_DESTROY_SEQ, s1=1), g.op(OP_MOVE_SEQ, s1=0),
               g.op(OP_ASSIGN_SEQ, s1=0, s2=1, k1=1), g.op(OP_ASSIGN_SEQ, s1=1, s2=0, k1=1), g.op(OP_DELETE_WATCHED, obj=0), g.op(OP_POP_TRACER)]
    probes = [g.call(0, F1, 1), g.call(2, F1, 1), g.call(3, F1, 1)]
    small_alpha = [g.release(0), g.release(1), g.release(2), g.op(OP_DESTROY_MOCK, obj=0), g.op(OP_DESTROY_SEQ, s1=0), g.op(OP_MOVE_SEQ, s1=0), g.op(OP_ASSIGN_SEQ, s1=0, s2=1, k1=1), g.op(OP_DELETE_WATCHED, obj=0),
                   g.call(0, F1, 1), g.call(0, F1, 2)]
    if tier == 'quick':
        return [dict(name='pop6', mask=M_C14, du=9, dm=6, alphabet=small_alpha, prefixes=[pop_small]),
                dict(name='pop9', mask=M_C14, du=9, dm=4, alphabet=destroy + probes, prefixes=[pop, pop_mv2, pop_mon2])]
    return [dict(name='pop6', mask=M_C14, du=9, dm=8, alphabet=small_alpha, prefixes=[pop_small]),
            dict(name='pop9', mask=M_C14, du=9, dm=6, alphabet=destroy + probes, prefixes=[pop, pop_mv2, pop_mon2])]


# ---------------------------------------------------------------- C16
M_C16 = F_OKREP | F_MISC | F_KIND


def plans_C16(g, tier):
    A = []
    slots = (0, 1, 2)
    for slot in slots:
        for mk in ('ANY', 'EQ'):
            A.append(g.create(slot, g.shape(fn=F1, mk1=mk, tform='ALLOW'), obj=0, k1=1))
            A.append(g.create(slot, g.shape(fn=F1, mk1=mk, tform='RT'), obj=0, k1=1, lo=1, hi=1))
        A.append(g.create(slot, g.shape(fn=F1, mk1='EQ', tform='FORBID'), obj=0, k1=2))
        A.append(g.create(slot, g.shape(fn=F1, mk1='ANY', tform='RT', seqar=1), obj=0, lo=1, hi=1, s1=0))
        A.append(g.create(slot, g.shape(fn=G1, mk1='ANY', tform='ALLOW'), obj=0))
        A.append(g.create(slot, g.shape(fn=F1, mk1='ANYM', tform='ALLOW'), obj=0))                                           # NAMED_ALLOW_CALL(m, f(ANY(int))): a macro inside the text
        A.append(g.create(slot, g.shape(fn=F1, mk1='EQ', tform='RT'), obj=0, k1=1, lo=2, hi=3))                               # accepted calls below the lower bound are reported OK too
        A.append(g.create(slot, g.shape(fn=Z0, mk1='ANY', tform='ALLOW'), obj=0))                                             # a function without parameters
        A.append(g.create(slot, g.shape(fn=F1, mk1='EQ', tform='RT', nse=1), obj=0, k1=1, lo=1, hi=2, semode=(1, 0, 0)))   # side effect throws: the call is still accepted
        A.append(g.create(slot, g.shape(fn=F1, mk1='EQ', tform='ALLOW', nse=1), obj=0, k1=0, semode=(2, 0, 0)))             # side effect calls g(): OK reports in acceptance order
        A.append(g.release(slot))
    A += [g.call(0, F1, a) for a in (0, 1, 2)] + [g.call(0, G1, 1), g.call(0, Z0, 0), g.call(0, F1, 2, in_catch=True), g.call(0, F1, 1, in_catch=True)]
    A += [g.call(0, F1, 1, other_thread=True)]   # reporters are process-wide: a call made on another thread reports to the installed ones
    A += [g.op(OP_SET_REPORTER, k1=1, k2=1), g.op(OP_SET_REPORTER, k1=2, k2=0), g.op(OP_SET_REPORTER, k1=0, k2=1), g.op(OP_ARM_OK, k1=2), g.op(OP_ARM_OK, k1=9)]
    if tier == 'quick':
        return [dict(name='ok3', mask=M_C16, du=2, dm=5, alphabet=A)]
    return [dict(name='ok3', mask=M_C16, du=3, dm=7, alphabet=A)]


# ---------------------------------------------------------------- C17
M_C17 = F_TRACE | F_KIND


def plans_C17(g, tier):
    pre = [[g.create(0, g.shape(fn=F1, mk1='EQ', tform='ALLOW', nse=1), obj=0, k1=1, semode=(2, 0, 0)),   # side effect calls g(_1): nested record
            g.create(1, g.shape(fn=G1, mk1='ANY', tform='ALLOW'), obj=0),
            g.create(2, g.shape(fn=V1, mk1='ANY', tform='ALLOW'), obj=0),
            g.create(3, g.shape(fn=F1, mk1='EQ', tform='ALLOW', act='THROW_STD'), obj=0, k1=2)],
           [g.create(0, g.shape(fn=F1, mk1='EQ', tform='ALLOW', act='THROW_INT'), obj=0, k1=1),
            g.create(1, g.shape(fn=F2, mk1='ANY', mk2='EQ', tform='ALLOW'), obj=0, k2=2),
            g.create(2, g.shape(fn=R1, mk1='ANY', tform='ALLOW'), obj=0),
            g.create(3, g.shape(fn=F1, mk1='EQ', tform='FORBID'), obj=0, k1=0)],
           [g.create(0, g.shape(fn=F1, mk1='ANY', tform='ALLOW', nse=1), obj=0, semode=(3, 0, 0)),        # recursion into the same function
            g.create(1, g.shape(fn=F1, mk1='EQ', tform='RT', seqar=1), obj=0, k1=0, lo=1, hi=1, s1=0),
            g.create(2, g.shape(fn=G1, mk1='ANY', tform='RT', seqar=1, act='THROW_STD'), obj=0, lo=1, hi=1, s1=0)]]
    pre.append([g.create(0, g.shape(fn=SV1, mk1='ANY', tform='ALLOW'), obj=0),                                                  # std::string returned by value
                g.create(1, g.shape(fn=V1, mk1='EQ', tform='ALLOW', nse=1), obj=0, k1=1, semode=(1, 0, 0)),                       # void function whose side effect throws
                g.create(2, g.shape(fn=F1, mk1='EQ', tform='ALLOW', nse=2), obj=0, k1=1, semode=(0, 1, 0)),                       # second side effect throws
                g.create(3, g.shape(fn=F1, mk1='EQ', tform='ALLOW', nse=1), obj=0, k1=2, semode=(4, 0, 0))])                      # side effect constructs a tracer that outlives the call
    pre.append([g.create(0, g.shape(fn=Z0, mk1='ANY', tform='ALLOW'), obj=0),                                                   # no parameters: the record is the text and the result
                g.create(1, g.shape(fn=F1, mk1='ANYM', tform='ALLOW'), obj=0),                                                    # NAMED_ALLOW_CALL(m, f(ANY(int))): the text as written
                g.create(2, g.shape(fn=Z0, mk1='ANY', tform='RT', act='THROW_STD'), obj=0, lo=1, hi=1),
                g.create(3, g.shape(fn=F1, mk1='ANYM', tform='RT'), obj=0, lo=1, hi=1)])   # (the variadic _V forms are documented to stringize after macro expansion: not combined with ANY(int))
    A = [g.op(OP_PUSH_TRACER, k1=0), g.op(OP_PUSH_TRACER, k1=1), g.op(OP_POP_TRACER)]
    A += [g.call(0, F1, a) for a in (0, 1, 2)] + [g.call(0, G1, 1), g.call(0, V1, 1), g.call(0, F2, 1, 2), g.call(0, R1, 1), g.call(0, SV1, 1), g.call(0, Z0, 0), g.release(3)]
    # every call is accepted and returns: a tracer that makes a mock call of its own for each record (kind 2), and calls made from a
    # destructor while the stack is being unwound, are traced like any other
    rpre = [[g.create(0, g.shape(fn=F1, mk1='ANY', tform='ALLOW'), obj=0), g.create(1, g.shape(fn=G1, mk1='ANY', tform='ALLOW'), obj=0),
             g.create(2, g.shape(fn=V1, mk1='ANY', tform='ALLOW'), obj=0), g.create(3, g.shape(fn=F1, mk1='EQ', tform='RT'), obj=0, k1=2, lo=1, hi=INF)]]
    RA = [g.op(OP_PUSH_TRACER, k1=0), g.op(OP_PUSH_TRACER, k1=2), g.op(OP_POP_TRACER)]
    RA += [g.call(0, F1, 1), g.call(0, F1, 2), g.call(0, G1, 1), g.call(0, V1, 1), g.call(0, F1, 1, unwinding=True), g.call(0, V1, 2, unwinding=True), g.call(0, G1, 2, unwinding=True)]
    return [dict(name='trace', mask=M_C17, du=3 if tier == 'quick' else 4, dm=7 if tier == 'quick' else 10, alphabet=A, prefixes=pre),
            dict(name='trace_reentrant_unwinding', mask=M_C17, du=3, dm=6 if tier == 'quick' else 8, alphabet=RA, prefixes=rpre)]


# ---------------------------------------------------------------- C15: the report mask applied to the violation-producing histories
def plans_C15(g, tier):
    mask = F_REPCOUNT | F_REPCULPRIT | F_REPDETAIL | F_KIND
    plans = []
    t = 'quick'  # the source alphabets at their quick bounds; the thorough tier deepens them
    deeper = 0 if tier == 'quick' else 1
    for name, fn in (('c01', plans_C01), ('c03', plans_C03), ('c04', plans_C04), ('c05', plans_C05), ('c06', plans_C06), ('c07', plans_C07), ('c13', plans_C13)):
        for p in fn(g, t):
            q = dict(p); q['name'] = name + '_' + p['name']; q['mask'] = mask; q['dm'] = p['dm'] + deeper if name not in ('c05', 'c06') else p['dm']
            if tier == 'quick' and name in ('c06', 'c07'):
                q['dm'] = p['dm'] - 1   # the two largest source alphabets one level shallower in the quick tier (their own checks run them at full quick depth)
            plans.append(q)
    # two-parameter overload: expectations that match one position and miss the other; WITH failing after parameters fit
    pre = []
    for mk1, mk2 in itertools.product(('ANY', 'EQ', 'LT'), repeat=2):
        for w in (0, 1):
            pre.append([g.create(0, g.shape(fn=F2, mk1=mk1, mk2=mk2, nwith=w, tform='RT'), obj=0, k1=1, k2=1, lo=1, hi=1, wmode=(1, 0, 0)),
                        g.create(1, g.shape(fn=F2, mk1='EQ', mk2='EQ', nwith=2, tform='RT'), obj=0, k1=2, k2=2, lo=1, hi=2, wmode=(0, 2, 0))])
    alpha = [g.call(0, F2, a, b) for a in (0, 1, 2) for b in (0, 1, 2)] + [g.release(0), g.release(1)]
    plans.append(dict(name='overload_listing', mask=mask, du=0, dm=3 + deeper, alphabet=alpha, prefixes=pre))
    return plans


PLANS = {'C01': plans_C01, 'C02': plans_C02, 'C03': plans_C03, 'C04': plans_C04, 'C05': plans_C05, 'C06': plans_C06, 'C07': plans_C07,
         'C08': plans_C08, 'C13': plans_C13, 'C14': plans_C14, 'C15': plans_C15, 'C16': plans_C16, 'C17': plans_C17}



def main():
    prop, outdir = sys.argv[1], sys.argv[2]
    os.makedirs(outdir, exist_ok=True)
    g = Gen()
    for tier in ('quick', 'thorough'):
        plans = PLANS[prop](g, tier)
        Gen.write_plans(os.path.join(outdir, 'plan_%s_%s.txt' % (prop, tier)), plans)
    g.write_sites(os.path.join(outdir, 'sites_%s.cpp' % prop))
    print('%s: %d shapes, %d sites' % (prop, len(g.shapes), len(g.used)))


if __name__ == '__main__':
    main()
