#!/usr/bin/env python3
"""Generator for engine E1 (histmc): per property it emits
  sites_<P>.cpp        one creation site (= one public-macro expectation statement on its own
                       source line) per (shape, slot) the property's plans use
  plan_<P>_<tier>.txt  the exploration plans: alphabet of fully parameterised operations,
                       configuration prefixes, depths, comparison mask
Usage: gen_hist.py <PROPERTY> <outdir>
"""
import itertools
import os
import sys

INF = 255
NSLOT = 4
F1, G1, F2, V1, R1 = range(5)
MK = dict(ANY=0, EQ=1, LT=2, VAL=3, NE=4, GE=5)
TF = dict(RT=0, DEFAULT=1, N=2, LH=3, ATLEAST=4, ATMOST=5, ALLOW=6, FORBID=7)
ACT = dict(RET=0, THROW_INT=1, THROW_STD=2, NONE=3, RETREF=4)
MOCK = dict(M=0, MV=1, W=2)
(OP_CREATE, OP_RELEASE, OP_CALL, OP_DESTROY_MOCK, OP_MOVE_MOCK, OP_DESTROY_SEQ, OP_MOVE_SEQ, OP_NEW_WATCHED, OP_DELETE_WATCHED,
 OP_COPY_WATCHED, OP_MOVECONS_WATCHED, OP_ASSIGN_WATCHED, OP_MOVEASSIGN_WATCHED, OP_MONITOR, OP_PUSH_TRACER, OP_POP_TRACER,
 OP_SET_REPORTER) = range(17)

F_KIND, F_HANDLER, F_REPCOUNT, F_REPCULPRIT, F_REPDETAIL, F_OK, F_TRACE, F_CLOG, F_QEXP, F_QSEQ, F_MISC = [1 << i for i in range(11)]
F_REPORTS = F_REPCOUNT | F_REPCULPRIT | F_REPDETAIL
F_ALL = (1 << 11) - 1

FN_NAME = {F1: 'f', F2: 'f', G1: 'g', V1: 'v', R1: 'r'}


class Gen:
    def __init__(self):
        self.shapes = []      # list of tuples
        self.shape_idx = {}
        self.used = set()     # (shape, slot)

    def shape(self, mock='M', fn=F1, mk1='EQ', mk2='ANY', nwith=0, nse=0, seqar=0, tform='RT', tl=0, th=0, act=None, clauses=None):
        if act is None:
            act = 'NONE' if (fn == V1 or tform == 'FORBID' or (tform in ('N',) and tl == 0) or mock == 'W') else ('RETREF' if fn == R1 else 'RET')
        if clauses is None:
            clauses = 'W' * nwith + ('Q' if seqar else '') + ('T' if tform not in ('DEFAULT', 'ALLOW', 'FORBID') else '') + 'S' * nse + ('A' if act != 'NONE' else '')
        key = (MOCK[mock], fn, MK[mk1], MK[mk2], nwith, nse, seqar, TF[tform], tl, th, ACT[act], clauses)
        if key not in self.shape_idx:
            self.shape_idx[key] = len(self.shapes)
            self.shapes.append(key)
        return self.shape_idx[key]

    # ---- operations -> 21 ints ----
    def op(self, kind, slot=0, shape=0, obj=0, fn=0, a1=0, a2=0, k1=0, k2=0, lo=1, hi=1, s1=0, s2=1, wmode=(0, 0, 0), semode=(0, 0, 0), actmode=0):
        if kind in (OP_CREATE, OP_MONITOR):
            self.used.add((shape, slot))
        return (kind, slot, shape, obj, fn, a1, a2, k1, k2, lo, hi, s1, s2) + tuple(wmode) + tuple(semode) + (actmode, 0)

    def create(self, slot, shape, obj=0, k1=0, k2=0, lo=1, hi=1, s1=0, s2=1, wmode=(0, 0, 0), semode=(0, 0, 0), actmode=0):
        return self.op(OP_CREATE, slot=slot, shape=shape, obj=obj, fn=self.shapes[shape][1], k1=k1, k2=k2, lo=lo, hi=hi, s1=s1, s2=s2, wmode=wmode, semode=semode, actmode=actmode)

    def monitor(self, slot, shape, w=0, s1=0, s2=1):
        return self.op(OP_MONITOR, slot=slot, shape=shape, obj=w, s1=s1, s2=s2)

    def call(self, obj, fn, a1, a2=0):
        return self.op(OP_CALL, obj=obj, fn=fn, a1=a1, a2=a2)

    def release(self, slot):
        return self.op(OP_RELEASE, slot=slot)

    # ---- C++ emission ----
    def matcher_expr(self, mk, operand):
        return {0: 'trompeloeil::_', 1: 'trompeloeil::eq(int(%s))' % operand, 2: 'trompeloeil::lt(int(%s))' % operand, 3: 'int(%s)' % operand,
                4: 'trompeloeil::ne(int(%s))' % operand, 5: 'trompeloeil::ge(int(%s))' % operand}[mk]

    def site_source(self, si, slot):
        mock, fn, mk1, mk2, nwith, nse, seqar, tform, tl, th, act, clauses = self.shapes[si]
        K = slot
        seqargs = '*pw->seq[op.s1]' if seqar == 1 else '*pw->seq[op.s1], *pw->seq[op.s2]'
        if mock == MOCK['W']:
            text = 'NAMED_REQUIRE_DESTRUCTION(*pw->w[op.obj])'
            body = 'return NAMED_REQUIRE_DESTRUCTION(*pw->w[op.obj])'
            if seqar:
                body += '.IN_SEQUENCE(%s)' % seqargs
            return body + ';', text
        args = self.matcher_expr(mk1, 'op.k1')
        if fn == F2:
            args += ', ' + self.matcher_expr(mk2, 'op.k2')
        callexpr = '%s(%s)' % (FN_NAME[fn], args)
        var = 'm_s%d' % K
        macro = {TF['ALLOW']: 'NAMED_ALLOW_CALL', TF['FORBID']: 'NAMED_FORBID_CALL'}.get(tform, 'NAMED_REQUIRE_CALL')
        text = '%s.%s' % (var, callexpr)
        chain = '%s(%s, %s)' % (macro, var, callexpr)
        wi = si_ = 0
        for c in clauses:
            if c == 'W':
                chain += '.%s(pw->hw(%d,%d,_1))' % ('WITH' if wi % 2 == 0 else 'LR_WITH', K, wi)
                wi += 1
            elif c == 'S':
                chain += '.%s(pw->hs(%d,%d,_1))' % ('SIDE_EFFECT' if si_ % 2 == 0 else 'LR_SIDE_EFFECT', K, si_)
                si_ += 1
            elif c == 'Q':
                chain += '.IN_SEQUENCE(%s)' % seqargs
            elif c == 'T':
                if tform == TF['RT']:
                    chain += '.RT_TIMES(size_t(op.lo), op.hi == 255 ? ~size_t(0) : size_t(op.hi))'
                elif tform == TF['N']:
                    chain += '.TIMES(%d)' % tl
                elif tform == TF['LH']:
                    chain += '.TIMES(%d, %d)' % (tl, th)
                elif tform == TF['ATLEAST']:
                    chain += '.TIMES(AT_LEAST(%d))' % tl
                elif tform == TF['ATMOST']:
                    chain += '.TIMES(AT_MOST(%d))' % tl
            elif c == 'A':
                chain += {ACT['RET']: '.RETURN(pw->hr(%d))' % K, ACT['RETREF']: '.LR_RETURN(pw->hrr(%d))' % K,
                          ACT['THROW_INT']: '.THROW(pw->ht(%d))' % K, ACT['THROW_STD']: '.THROW(pw->hte(%d))' % K}[act]
        getter = 'pw->M_(op.obj)' if mock == MOCK['M'] else 'pw->MV_(op.obj)'
        return 'auto& %s = %s; return %s;' % (var, getter, chain), text

    def write_sites(self, path):
        lines = ['// generated by gen/gen_hist.py - do not edit', '#include "world.hpp"', 'namespace hm {', 'namespace {']
        entries = {}
        for (si, slot) in sorted(self.used):
            body, text = self.site_source(si, slot)
            lineno = len(lines) + 1
            lines.append('static E site_%d_%d(World* pw, const Op& op) { (void)pw; (void)op; %s }' % (si, slot, body))
            entries[(si, slot)] = (lineno, text)
        lines.append('}  // namespace')
        lines.append('const Shape g_shapes[] = {')
        for sh in self.shapes:
            lines.append('  {%s, "%s"},' % (', '.join(str(x) for x in sh[:11]), sh[11]))
        if not self.shapes:
            lines.append('  {0,0,0,0,0,0,0,0,0,0,0,""},')
        lines.append('};')
        lines.append('const int g_nshapes = %d;' % len(self.shapes))
        lines.append('struct SiteEntry { int shape, slot; SiteFn fn; Site site; };')
        lines.append('static const SiteEntry g_sites[] = {')
        for (si, slot), (lineno, text) in sorted(entries.items()):
            lines.append('  {%d, %d, &site_%d_%d, {__FILE__, %dUL, "%s"}},' % (si, slot, si, slot, lineno, text.replace('\\', '\\\\').replace('"', '\\"')))
        lines.append('  {-1, -1, nullptr, {"", 0UL, ""}}')
        lines.append('};')
        lines.append('static const SiteEntry& find_site(int shape, int slot) { for (const SiteEntry* e = g_sites; e->fn; ++e) if (e->shape == shape && e->slot == slot) return *e; fprintf(stderr, "no site for shape %d slot %d\\n", shape, slot); abort(); }')
        lines.append('const Site& site_of(int shape, int slot) { return find_site(shape, slot).site; }')
        lines.append('SiteFn site_fn(int shape, int slot) { return find_site(shape, slot).fn; }')
        lines.append('}  // namespace hm')
        with open(path, 'w') as f:
            f.write('\n'.join(lines) + '\n')

    @staticmethod
    def write_plans(path, plans):
        with open(path, 'w') as f:
            for p in plans:
                f.write('plan %s %x %d %d %d\n' % (p['name'], p['mask'], p['du'], p['dm'], len(p['alphabet'])))
                for op in p['alphabet']:
                    f.write(' '.join(str(x) for x in op) + '\n')
                prefixes = p.get('prefixes') or [[]]
                f.write('%d\n' % len(prefixes))
                for pre in prefixes:
                    f.write('%d\n' % len(pre))
                    for op in pre:
                        f.write(' '.join(str(x) for x in op) + '\n')


# =====================================================================================
# plans
# =====================================================================================

BOUNDS_Q = [(1, 1), (0, INF), (1, INF), (2, 2)]
BOUNDS_T = BOUNDS_Q + [(1, 2), (0, 1)]


def seq_configs(g, n, bounds, with_monitors=False, any_matchers=True, reduce_symmetry=True):
    """All assignments of n expectations (slot i, matcher eq(i) or _, on obj0.f) to subsets of 2 sequences with bounds."""
    sh = {}
    for mk in ('EQ', 'ANY'):
        for ar in (0, 1, 2):
            sh[(mk, ar)] = g.shape(fn=F1, mk1=mk, seqar=ar, tform='RT')
    msh = {ar: g.shape(mock='W', seqar=ar) for ar in (0, 1, 2)} if with_monitors else {}
    per = []
    for mask in (0, 1, 2, 3):
        for b in bounds:
            for mk in (('EQ', 'ANY') if any_matchers else ('EQ',)):
                per.append(('E', mask, b, mk))
        if with_monitors and mask:
            per.append(('D', mask, (1, 1), None))
    out = []
    for combo in itertools.product(per, repeat=n):
        masks = [c[1] for c in combo]
        if reduce_symmetry:
            # s0 <-> s1 symmetry: keep the assignment whose first one-sequence member names s0
            first = next((m for m in masks if m in (1, 2)), None)
            if first == 2:
                continue
        if sum(1 for m in masks if m) < 2:
            continue  # at least two sequenced members, otherwise nothing is ordered
        pre = []
        nw = 0
        for i, (kind, mask, b, mk) in enumerate(combo):
            ar = 0 if mask == 0 else (2 if mask == 3 else 1)
            s1 = 1 if mask == 2 else 0
            if kind == 'E':
                pre.append(g.create(i, sh[(mk, ar)], obj=0, k1=i, lo=b[0], hi=b[1], s1=s1, s2=1))
            else:
                pre.append(g.op(OP_NEW_WATCHED, obj=nw))
                pre.append(g.monitor(i, msh[ar], w=nw, s1=s1, s2=1))
                nw += 1
        out.append(pre)
    return out


def plans_C05(g, tier):
    plans = []
    n = 3
    alpha = [g.call(0, F1, a) for a in range(n)] + [g.release(i) for i in range(n)]
    mask = F_KIND | F_HANDLER | F_REPCOUNT | F_REPCULPRIT | F_QEXP | F_QSEQ | F_CLOG
    if tier == 'quick':
        plans.append(dict(name='seq3', mask=mask, du=0, dm=4, alphabet=alpha, prefixes=seq_configs(g, 3, BOUNDS_Q)))
        malpha = alpha + [g.op(OP_DELETE_WATCHED, obj=w) for w in range(2)]
        plans.append(dict(name='seq3mon', mask=mask, du=0, dm=4, alphabet=malpha,
                          prefixes=[p for p in seq_configs(g, 3, [(1, 1), (0, INF)], with_monitors=True, any_matchers=False) if any(o[0] == OP_MONITOR for o in p)]))
    else:
        plans.append(dict(name='seq3', mask=mask, du=0, dm=6, alphabet=alpha, prefixes=seq_configs(g, 3, BOUNDS_T)))
        malpha = alpha + [g.op(OP_DELETE_WATCHED, obj=w) for w in range(3)]
        plans.append(dict(name='seq3mon', mask=mask, du=0, dm=5, alphabet=malpha,
                          prefixes=[p for p in seq_configs(g, 3, BOUNDS_Q, with_monitors=True, any_matchers=False) if any(o[0] == OP_MONITOR for o in p)]))
    return plans


def plans_C06(g, tier):
    n = 3
    alpha = [g.call(0, F1, a) for a in range(n)] + [g.release(i) for i in range(n)] + [g.op(OP_DESTROY_SEQ, s1=q) for q in (0, 1)] + [g.op(OP_MOVE_SEQ, s1=0)]
    mask = F_QSEQ | F_REPCOUNT | F_REPCULPRIT | F_REPDETAIL | F_KIND
    if tier == 'quick':
        return [dict(name='seq3teardown', mask=mask, du=0, dm=4, alphabet=alpha, prefixes=seq_configs(g, 3, [(1, 1), (0, INF), (2, 2)], any_matchers=False)),
                dict(name='seq3mon_teardown', mask=mask, du=0, dm=4, alphabet=alpha + [g.op(OP_DELETE_WATCHED, obj=w) for w in range(2)],
                     prefixes=[p for p in seq_configs(g, 3, [(1, 1)], with_monitors=True, any_matchers=False) if any(o[0] == OP_MONITOR for o in p)])]
    return [dict(name='seq3teardown', mask=mask, du=0, dm=6, alphabet=alpha, prefixes=seq_configs(g, 3, BOUNDS_T, any_matchers=False)),
            dict(name='seq3mon_teardown', mask=mask, du=0, dm=5, alphabet=alpha + [g.op(OP_DELETE_WATCHED, obj=w) for w in range(3)],
                 prefixes=[p for p in seq_configs(g, 3, [(1, 1), (0, INF)], with_monitors=True, any_matchers=False) if any(o[0] == OP_MONITOR for o in p)])]


PLANS = {'C05': plans_C05, 'C06': plans_C06}


def main():
    prop, outdir = sys.argv[1], sys.argv[2]
    os.makedirs(outdir, exist_ok=True)
    g = Gen()
    for tier in ('quick', 'thorough'):
        plans = PLANS[prop](g, tier)
        Gen.write_plans(os.path.join(outdir, 'plan_%s_%s.txt' % (prop, tier)), plans)
    g.write_sites(os.path.join(outdir, 'sites_%s.cpp' % prop))
    print('%s: %d shapes, %d sites' % (prop, len(g.shapes), len(g.used)))


if __name__ == '__main__':
    main()
