#!/usr/bin/env python3
"""Engine E4 "compmc": the clause typestate machine of an expectation statement (DESIGN.md appendix D), explored
through the real compiler and the real headers. Decides C19.

  compmc.py --inc <include dir> --work <dir> --tier quick|thorough --evidence <file> --replay-dir <dir> [--replay FILE]

Every clause sequence up to the length bound over the clause alphabet, for every signature kind and expectation
macro, is emitted as one snippet (own mock struct, own function); snippets are batched into translation units that are
compiled with -fsyntax-only by g++ and clang++ at every language level. The automaton below predicts acceptance or the
documented static_assert text; a disagreement is re-checked by compiling that snippet alone before it is reported.
Also: the 68 shipped negative programs under compilation_errors/ with their own "// pass:" rules, parameter indices
beyond the arity in every clause kind, and the macro namespace under TROMPELOEIL_LONG_MACROS.
"""
import itertools
import json
import os
import re
import subprocess
import sys
import time
from concurrent.futures import ThreadPoolExecutor

NPROC = os.cpu_count() or 4

# ---------------------------------------------------------------------------------------------- automaton
KINDS = {  # signature kind -> (return type, is coroutine, returns void)
    'void': ('void', False), 'value': ('int', False), 'ref': ('int&', False), 'coro_int': ('task<int>', True), 'coro_void': ('task<void>', True),
}
INF = 10 ** 9


class St:
    def __init__(self, macro):
        self.R = False; self.CR = False; self.T = False; self.S = False; self.Q = False
        self.CL = macro in ('ALLOW_CALL', 'FORBID_CALL')
        self.U = {'REQUIRE_CALL': 1, 'ALLOW_CALL': INF, 'FORBID_CALL': 0}[macro]


def step(st, kind, clause):
    """returns the list of documented diagnostics the clause must raise in this state (empty = accepted), and updates the state"""
    coro = KINDS[kind][1]
    void = kind == 'void'
    d = []
    if clause == 'W':
        pass
    elif clause == 'S':
        if st.U == 0:
            d.append('SIDE_EFFECT for forbidden call does not make sense')
        st.S = True
    elif clause == 'R':
        if st.CR:
            d.append('RETURN and CO_RETURN cannot be combined')
        if coro:
            d.append('Do not use RETURN from a coroutine, use CO_RETURN')
        else:
            if void:
                d.append('RETURN does not make sense for void-function')
            if st.R and not void:
                d.append('Multiple RETURN does not make sense')
            if st.T and st.U != 0:
                d.append('THROW and RETURN does not make sense')
            if st.U == 0:
                d.append('RETURN for forbidden call does not make sense')
        if not void and not coro:
            st.R = True
    elif clause == 'T':
        if coro:
            d.append('Do not use THROW from a coroutine, use CO_THROW')
        else:
            if st.T:
                d.append('Multiple THROW does not make sense')
            if st.U == 0:
                d.append('THROW for forbidden call does not make sense')
        if st.R:
            d.append('THROW and RETURN does not make sense')
        st.T = True
    elif clause in ('T2', 'T0', 'T02'):
        lo, hi = {'T2': (2, 2), 'T0': (0, 0), 'T02': (0, 2)}[clause]
        if st.CL:
            d.append('Only one TIMES call limit is allowed, but it can express an interval')
        if hi == 0:
            if st.T:
                d.append('THROW and TIMES(0) does not make sense')
            if st.R:
                d.append('RETURN and TIMES(0) does not make sense')
            if st.S:
                d.append('SIDE_EFFECT and TIMES(0) does not make sense')
            if st.Q:
                d.append('IN_SEQUENCE and TIMES(0) does not make sense')
        st.CL = True; st.U = hi
    elif clause == 'RT':
        if st.CL:
            d.append('Only one RT_TIMES call limit is allowed, but it can express an interval')
        st.CL = True; st.U = INF
    elif clause == 'Q':
        if st.Q:
            d.append('Multiple IN_SEQUENCE does not make sense.')
        if st.U == 0:
            d.append('IN_SEQUENCE for forbidden call does not make sense')
        st.Q = True
    elif clause == 'CY':
        if not coro:
            d.append('CO_YIELD when return type is not a coroutine')

    elif clause == 'CR':
        if st.R:
            d.append('CO_RETURN and RETURN cannot be combined')
        else:
            if st.CR:
                d.append('Multiple CO_RETURN does not make sense')
            if not coro:
                d.append('CO_RETURN when return type is not a coroutine')
        if st.T and st.U != 0:
            d.append('CO_THROW and CO_RETURN does not make sense')
        if st.U == 0:
            d.append('CO_RETURN for forbidden call does not make sense')
        if coro:
            st.CR = True
    elif clause == 'CT':
        if not coro:
            d.append('Do not use CO_THROW from a normal function, use THROW')
        else:
            if st.T:
                d.append('Multiple CO_THROW does not make sense')
            if st.CR:
                d.append('CO_THROW and CO_RETURN does not make sense')
            if st.U == 0:
                d.append('CO_THROW for forbidden call does not make sense')
        st.T = True
    return d


def end_of_statement(st, kind):
    coro = KINDS[kind][1]
    if kind in ('value', 'ref') and not st.R and not st.T and st.U != 0:
        return ['RETURN missing for non-void function']
    if coro and not st.CR and not st.T and st.U != 0:
        return ['CO_RETURN missing for coroutine']
    return []


def predict(macro, kind, seq):
    """(accepted?, first rejecting clause's documented diagnostics)"""
    st = St(macro)
    for c in seq:
        d = step(st, kind, c)
        if d:
            return False, d
    d = end_of_statement(st, kind)
    return (not d), d


# ---------------------------------------------------------------------------------------------- snippets
PREAMBLE = '''#include <trompeloeil.hpp>
#ifdef __cpp_impl_coroutine
template <typename T> struct task {
  struct promise_type {
    std::suspend_never initial_suspend() noexcept { return {}; }
    std::suspend_always final_suspend() noexcept { return {}; }
    void return_value(T);
    std::suspend_always yield_value(T);
    void unhandled_exception();
    task get_return_object();
  };
  bool await_ready();
  void await_suspend(std::coroutine_handle<>);
  T await_resume();
};
template <> struct task<void> {
  struct promise_type {
    std::suspend_never initial_suspend() noexcept { return {}; }
    std::suspend_always final_suspend() noexcept { return {}; }
    void return_void();
    std::suspend_always yield_value(int);
    void unhandled_exception();
    task get_return_object();
  };
  bool await_ready();
  void await_suspend(std::coroutine_handle<>);
  void await_resume();
};
// a coroutine type WITHOUT a nested promise_type: its promise is found only through a std::coroutine_traits specialisation
struct xtask { bool await_ready(); void await_suspend(std::coroutine_handle<>); int await_resume(); };
struct xtask_promise {
  std::suspend_never initial_suspend() noexcept { return {}; }
  std::suspend_always final_suspend() noexcept { return {}; }
  void return_value(int);
  std::suspend_always yield_value(int);
  void unhandled_exception();
  xtask get_return_object();
};
template <typename... A> struct std::coroutine_traits<xtask, A...> { using promise_type = xtask_promise; };
#endif
extern int gi;
extern trompeloeil::sequence gseq;
'''


def clause_text(kind, c, lr):
    L = 'LR_' if lr else ''
    if c == 'W':
        return '.%sWITH(_1 > 0)' % L
    if c == 'S':
        return '.%sSIDE_EFFECT(++gi)' % L
    if c == 'R':
        return '.LR_RETURN(gi)' if kind == 'ref' else '.%sRETURN(1)' % L
    if c == 'T':
        return '.%sTHROW(1)' % L
    if c == 'T2':
        return '.TIMES(2)'
    if c == 'T0':
        return '.TIMES(0)'
    if c == 'T02':
        return '.TIMES(AT_MOST(2))'
    if c == 'RT':
        return '.RT_TIMES(1)'
    if c == 'Q':
        return '.IN_SEQUENCE(gseq)'
    if c == 'CY':
        return '.%sCO_YIELD(1)' % L
    if c == 'CR':
        return '.%sCO_RETURN()' % L if kind in ('coro_void', 'void') else '.%sCO_RETURN(1)' % L
    if c == 'CT':
        return '.%sCO_THROW(1)' % L
    raise ValueError(c)


def snippet(idx, macro, named, kind, seq, lr):
    ret = KINDS[kind][0]
    chain = ''.join(clause_text(kind, c, lr) for c in seq)
    mname = ('NAMED_' if named else '') + macro
    stmt = ('auto e = %s(m, f(trompeloeil::_))%s; (void)e;' if named else '%s(m, f(trompeloeil::_))%s;') % (mname, chain)
    return ['struct M%d {' % idx, '  MAKE_MOCK1(f, %s(int));' % ret, '};', 'void snippet_%d(M%d& m) {' % (idx, idx), '  ' + stmt, '}']


def run(cmd, **kw):
    r = subprocess.run(cmd, stdout=subprocess.PIPE, stderr=subprocess.STDOUT, universal_newlines=True, **kw)
    return r.returncode, r.stdout


DIAG_RE = re.compile(r'(static assertion failed|static_assert failed)[^\n]*')


def compile_tu(cxx, std, inc, path):
    return run([cxx, '-std=' + std, '-fsyntax-only', '-ferror-limit=0' if 'clang' in cxx else '-fmax-errors=0', '-I' + inc, path])


def attribute(output, tu_path, ranges, cxx='g++'):
    """map snippet index -> list of error lines. Every snippet has its own mock struct M<idx> and function snippet_<idx>,
    and both compilers name them in the instantiation context of a static_assert: g++ prints that context BEFORE the error
    ('In instantiation of ... modifier_tag = M<idx>::...' / '<tu>:<line>: required from here'), clang++ in the notes AFTER it."""
    base = os.path.basename(tu_path)
    lines = output.splitlines()

    def mention(l):
        m = re.search(r'\bM(\d+)::|snippet_(\d+)\b', l)
        if m:
            return int(m.group(1) or m.group(2))
        m = re.search(re.escape(base) + r':(\d+)', l)
        if m:
            ln = int(m.group(1))
            for idx, (a, b) in ranges.items():
                if a <= ln <= b:
                    return idx
        return None

    is_err = lambda l: ' error: ' in l or l.startswith('error:')
    per = {}
    unattributed = []
    if 'clang' in cxx:
        i = 0
        while i < len(lines):
            if is_err(lines[i]):
                idx = mention(lines[i])
                j = i + 1
                while j < len(lines) and not is_err(lines[j]):
                    if idx is None:
                        idx = mention(lines[j])
                    j += 1
                if idx is None:
                    unattributed.append(lines[i])
                else:
                    per.setdefault(idx, []).append(lines[i])
                i = j
            else:
                i += 1
    else:
        current = None
        for l in lines:
            if is_err(l):
                idx = mention(l)
                if idx is None:
                    idx = current
                if idx is None:
                    unattributed.append(l)
                else:
                    per.setdefault(idx, []).append(l)
            elif 'In instantiation of' in l or 'required from' in l or 'In function' in l or 'In substitution of' in l or 'required by' in l:
                m = mention(l)
                if m is not None:
                    current = m
                elif 'In instantiation of' in l or 'In function' in l:
                    current = None
    return per, unattributed


# ---------------------------------------------------------------------------------------------- main exploration
def explore(args):
    t0 = time.time()
    work = args['work']; inc = args['inc']; tier = args['tier']
    os.makedirs(work, exist_ok=True)
    maxlen = 2 if tier == 'quick' else 3
    base_alpha = ['W', 'S', 'R', 'T', 'T2', 'T0', 'T02', 'RT', 'Q']
    coro_alpha = ['CR', 'CT', 'CY']
    levels = [('c++14', False), ('c++17', False), ('c++20', True)]
    compilers = ['g++', 'clang++']
    cases = []  # (macro, named, kind, seq, lr, std)
    for std, has_coro in levels:
        kinds = ['void', 'value', 'ref'] + (['coro_int', 'coro_void'] if has_coro else [])
        for kind in kinds:
            alpha = base_alpha + (coro_alpha if has_coro else [])
            for n in range(0, maxlen + 1):
                for seq in itertools.product(alpha, repeat=n):
                    if kind == 'coro_void' and 'CY' in seq:
                        continue  # yielding from an awaitable whose await_resume() is void is not a meaningful type (the yield type is taken from it)
                    # the full macro set on the shortest sequences, REQUIRE_CALL plus a rotating other macro on the longer ones
                    if n <= 1:
                        macros = [('REQUIRE_CALL', False), ('ALLOW_CALL', False), ('FORBID_CALL', False), ('REQUIRE_CALL', True), ('ALLOW_CALL', True), ('FORBID_CALL', True)]
                    elif std == 'c++14' or KINDS[kind][1]:
                        macros = [('REQUIRE_CALL', False), ('ALLOW_CALL', len(cases) % 2 == 0), ('FORBID_CALL', len(cases) % 2 == 1)]
                    else:
                        macros = [('REQUIRE_CALL', len(cases) % 2 == 0)]
                    if tier == 'quick' and std == 'c++17' and n == 2:
                        continue  # C++17 adds nothing to the clause machine over C++14: quick tier checks it on length <= 1
                    for macro, named in macros:
                        cases.append((macro, named, kind, seq, (len(cases) % 5 == 4), std))
    # batch into translation units per language level
    BATCH = 40
    tus = []
    by_std = {}
    for c in cases:
        by_std.setdefault(c[5], []).append(c)
    idx = 0
    for std, cs in by_std.items():
        for b in range(0, len(cs), BATCH):
            chunk = cs[b:b + BATCH]
            lines = PREAMBLE.splitlines()
            ranges = {}
            members = {}
            for c in chunk:
                sn = snippet(idx, c[0], c[1], c[2], c[3], c[4])
                a = len(lines) + 1
                lines += sn
                ranges[idx] = (a, len(lines))
                members[idx] = c
                idx += 1
            path = os.path.join(work, 'tu_%s_%d.cpp' % (std.replace('+', 'p'), b // BATCH))
            with open(path, 'w') as f:
                f.write('\n'.join(lines) + '\n')
            tus.append((std, path, ranges, members))
    stats = dict(snippets=len(cases), tus=len(tus), compiles=0, accepted=0, rejected=0, recheck=0)
    violations = []
    outcomes = set()

    def single(cxx, std, c):
        """compile one snippet alone; returns (compiled?, diagnostics)"""
        path = os.path.join(work, 'single_%d_%s.cpp' % (abs(hash((cxx, std, c))) % 10 ** 9, cxx.replace('+', 'p')))
        with open(path, 'w') as f:
            f.write(PREAMBLE + '\n'.join(snippet(0, c[0], c[1], c[2], c[3], c[4])) + '\n')
        rc, out = compile_tu(cxx, std, inc, path)
        os.remove(path)
        return rc == 0, [m.group(0) for m in DIAG_RE.finditer(out)], out

    def judge(c, compiled, diags):
        ok, want = predict(c[0], c[2], c[3])
        if ok:
            return compiled, 'expected to compile'
        if compiled:
            return False, 'expected to be rejected with: ' + ' | '.join(want)
        if any(w in d for w in want for d in diags):
            return True, ''
        return False, 'rejected, but without the documented diagnostic: ' + ' | '.join(want)

    def do_tu(job):
        cxx, (std, path, ranges, members) = job
        rc, out = compile_tu(cxx, std, inc, path)
        per, unattr = attribute(out, path, ranges, cxx)
        res = []
        for idx_, c in members.items():
            errs = per.get(idx_, [])
            diags = [m.group(0) for e in errs for m in DIAG_RE.finditer(e)]
            compiled = not errs
            good, why = judge(c, compiled, diags)
            rechecked = False
            if not good or (unattr and not errs and not predict(c[0], c[2], c[3])[0]):
                # confirm alone before reporting (attribution inside a batch can be ambiguous)
                compiled, diags, sout = single(cxx, std, c)
                good, why = judge(c, compiled, diags)
                rechecked = True
                if not good:
                    res.append(('V', c, cxx, std, why, sout[-3000:]))
                    continue
            res.append(('A' if compiled else 'R', c, cxx, std, rechecked, None))
        return res

    jobs = [(cxx, tu) for tu in tus for cxx in compilers]
    with ThreadPoolExecutor(max_workers=NPROC) as ex:
        for res in ex.map(do_tu, jobs):
            stats['compiles'] += 1
            for r in res:
                if r[0] == 'V':
                    violations.append(dict(kind='clause sequence', macro=('NAMED_' if r[1][1] else '') + r[1][0], signature=r[1][2], clauses=list(r[1][3]), lr=r[1][4], compiler=r[2], std=r[3], why=r[4], compiler_output=r[5],
                                           source=PREAMBLE + '\n'.join(snippet(0, *r[1][:5]))))
                else:
                    stats['accepted' if r[0] == 'A' else 'rejected'] += 1
                    if r[4]:
                        stats['recheck'] += 1
                    outcomes.add((r[1][2], r[0]))
    return stats, violations, outcomes, time.time() - t0, cases


def corpus(args):
    """the shipped negative programs with their own rules (verify_compilation_error.sh)"""
    repo = args['repo']; inc = args['inc']
    d = os.path.join(repo, 'compilation_errors')
    files = sorted(f for f in os.listdir(d) if f.endswith('.cpp'))
    violations = []
    n = 0

    def rule(path, name):
        for l in open(path):
            m = re.match(r'^// %s: (.*)$' % name, l.rstrip('\n'))
            if m:
                return m.group(1)
        return None

    def one(job):
        f, cxx, std = job
        path = os.path.join(d, f)
        exc = rule(path, 'exception'); pas = rule(path, 'pass')
        compiler_string = '{} %s -std=%s' % (cxx, std)
        if exc:
            pat = exc.replace('+', r'\+').replace(r'\|', '|')
            if re.search(pat, compiler_string):
                return None
        rc, out = run([cxx, '-std=' + std, '-I' + inc, '-fsyntax-only', path])
        if pas is None:
            return dict(kind='shipped negative program', file=f, compiler=cxx, std=std, why='no // pass: rule')
        if rc == 0:
            return dict(kind='shipped negative program', file=f, compiler=cxx, std=std, why='compiles, but must be rejected with /%s/' % pas)
        try:
            okm = re.search(pas, out) is not None
        except re.error:
            okm = pas in out
        if not okm:
            return dict(kind='shipped negative program', file=f, compiler=cxx, std=std, why='rejected without the documented diagnostic /%s/' % pas, compiler_output=out[-3000:])
        return 'ok'

    jobs = [(f, cxx, std) for f in files for cxx in ('g++', 'clang++') for std in ('c++14', 'c++17', 'c++20')]
    with ThreadPoolExecutor(max_workers=NPROC) as ex:
        for r in ex.map(one, jobs):
            if r == 'ok':
                n += 1
            elif r is not None:
                violations.append(r)
    return len(files), n, violations


EXTRA = [
    # (description, signature arity macro line, body, expected diagnostic substring, min std)
    ('parameter index beyond the arity in WITH', 'MAKE_MOCK1(f, int(int));', 'REQUIRE_CALL(m, f(trompeloeil::_)).WITH(_2 == 1).RETURN(0);', 'illegal_argument', 'c++14'),
    ('parameter index beyond the arity in SIDE_EFFECT', 'MAKE_MOCK1(f, int(int));', 'REQUIRE_CALL(m, f(trompeloeil::_)).SIDE_EFFECT(gi = _2).RETURN(0);', 'illegal_argument', 'c++14'),
    ('parameter index beyond the arity in RETURN', 'MAKE_MOCK1(f, int(int));', 'REQUIRE_CALL(m, f(trompeloeil::_)).RETURN(_2);', 'RETURN illegal argument', 'c++14'),
    ('parameter index beyond the arity in THROW', 'MAKE_MOCK1(f, int(int));', 'REQUIRE_CALL(m, f(trompeloeil::_)).THROW(_2 + 1);', 'illegal_argument', 'c++14'),
    ('parameter index 15 on arity 14', 'MAKE_MOCK14(f, int(int,int,int,int,int,int,int,int,int,int,int,int,int,int));', 'REQUIRE_CALL(m, f(1,2,3,4,5,6,7,8,9,10,11,12,13,14)).RETURN(_15);', 'RETURN illegal argument', 'c++14'),
    ('MAKE_MOCKn arity disagrees with the signature', 'MAKE_MOCK2(f, int(int));', '', 'Function signature does not have 2 parameters', 'c++14'),
    ('inverted TIMES bounds', 'MAKE_MOCK1(f, void(int));', 'REQUIRE_CALL(m, f(trompeloeil::_)).TIMES(3, 2);', 'In TIMES the first value must not exceed the second', 'c++14'),
    ('moving a non-movable mock', 'MAKE_MOCK1(f, void(int));', 'auto m2 = std::move(m); (void)m2;', 'By default, mock objects are not movable', 'c++14'),
    ('empty RETURN() on a void function', 'MAKE_MOCK1(f, void(int));', 'REQUIRE_CALL(m, f(trompeloeil::_)).RETURN();', 'RETURN does not make sense for void-function', 'c++14'),
    ('MAKE_MOCKn arity smaller than the signature', 'MAKE_MOCK1(f, void(int, int));', '', 'Function signature does not have 1 parameters', 'c++14'),
    ('MAKE_CONST_MOCK0 on a one-parameter signature', 'MAKE_CONST_MOCK0(f, int(int));', '', 'Function signature does not have 0 parameters', 'c++14'),
    # a coroutine type whose promise comes from std::coroutine_traits only is a coroutine like any other (C++20)
    ('RETURN on a traits-only coroutine type', 'MAKE_MOCK1(f, xtask(int));', 'REQUIRE_CALL(m, f(trompeloeil::_)).RETURN(xtask{});', 'Do not use RETURN from a coroutine, use CO_RETURN', 'c++20'),
    ('THROW on a traits-only coroutine type', 'MAKE_MOCK1(f, xtask(int));', 'REQUIRE_CALL(m, f(trompeloeil::_)).THROW(1);', 'Do not use THROW from a coroutine, use CO_THROW', 'c++20'),
    ('no CO_RETURN on a traits-only coroutine type', 'MAKE_MOCK1(f, xtask(int));', 'REQUIRE_CALL(m, f(trompeloeil::_));', 'CO_RETURN missing for coroutine', 'c++20'),
    # the variadic (_V) macro family is a separate set of macro definitions: same diagnostics
    ('FORBID_CALL_V with RETURN', 'MAKE_MOCK1(f, int(int));', 'FORBID_CALL_V(m, f(trompeloeil::_), .RETURN(1));', 'RETURN for forbidden call does not make sense', 'c++14'),
    ('FORBID_CALL_V with SIDE_EFFECT', 'MAKE_MOCK1(f, int(int));', 'FORBID_CALL_V(m, f(trompeloeil::_), .SIDE_EFFECT(++gi));', 'SIDE_EFFECT for forbidden call does not make sense', 'c++14'),
    ('FORBID_CALL_V with WITH then THROW', 'MAKE_MOCK1(f, int(int));', 'FORBID_CALL_V(m, f(trompeloeil::_), .WITH(_1 > 0) .THROW(1));', 'THROW for forbidden call does not make sense', 'c++14'),
    ('NAMED_FORBID_CALL_V with IN_SEQUENCE', 'MAKE_MOCK1(f, int(int));', 'auto e = NAMED_FORBID_CALL_V(m, f(trompeloeil::_), .IN_SEQUENCE(gseq)); (void)e;', 'IN_SEQUENCE for forbidden call does not make sense', 'c++14'),
    ('NAMED_FORBID_CALL_V with RETURN', 'MAKE_MOCK1(f, int(int));', 'auto e = NAMED_FORBID_CALL_V(m, f(trompeloeil::_), .RETURN(0)); (void)e;', 'RETURN for forbidden call does not make sense', 'c++14'),
    ('REQUIRE_CALL_V with two RETURN', 'MAKE_MOCK1(f, int(int));', 'REQUIRE_CALL_V(m, f(trompeloeil::_), .RETURN(1) .RETURN(2));', 'Multiple RETURN does not make sense', 'c++14'),
    ('REQUIRE_CALL_V without RETURN on a value function', 'MAKE_MOCK1(f, int(int));', 'REQUIRE_CALL_V(m, f(trompeloeil::_));', 'RETURN missing for non-void function', 'c++14'),
    ('REQUIRE_CALL_V with clauses but no RETURN on a value function', 'MAKE_MOCK1(f, int(int));', 'REQUIRE_CALL_V(m, f(trompeloeil::_), .WITH(_1 > 0) .TIMES(2));', 'RETURN missing for non-void function', 'c++14'),
    ('ALLOW_CALL_V with TIMES', 'MAKE_MOCK1(f, int(int));', 'ALLOW_CALL_V(m, f(trompeloeil::_), .TIMES(2) .RETURN(1));', 'Only one TIMES call limit is allowed', 'c++14'),
    ('NAMED_REQUIRE_CALL_V with RETURN on a void function', 'MAKE_MOCK1(f, void(int));', 'auto e = NAMED_REQUIRE_CALL_V(m, f(trompeloeil::_), .RETURN(1)); (void)e;', 'RETURN does not make sense for void-function', 'c++14'),
    ('REQUIRE_CALL_V with TIMES(0) then SIDE_EFFECT', 'MAKE_MOCK1(f, void(int));', 'REQUIRE_CALL_V(m, f(trompeloeil::_), .TIMES(0) .SIDE_EFFECT(++gi));', 'SIDE_EFFECT for forbidden call does not make sense', 'c++14'),
    ('REQUIRE_CALL_V with SIDE_EFFECT then TIMES(0)', 'MAKE_MOCK1(f, void(int));', 'REQUIRE_CALL_V(m, f(trompeloeil::_), .SIDE_EFFECT(++gi) .TIMES(0));', 'SIDE_EFFECT and TIMES(0) does not make sense', 'c++14'),
    ('deathwatched on a polymorphic type with a non-virtual destructor', 'MAKE_MOCK1(f, void(int));', 'struct P { virtual void g() {} ~P() {} }; auto* pw = new trompeloeil::deathwatched<P>(); (void)pw;', 'virtual destructor is a necessity for deathwatched to work', 'c++14'),
]
LEGAL = [
    ('every clause kind, LR_ forms, sequence and interval on a value function', 'MAKE_MOCK2(f, int(int, int));',
     'int loc = 1; REQUIRE_CALL(m, f(trompeloeil::gt(0), trompeloeil::_)).WITH(_1 != _2).LR_WITH(_1 == loc).IN_SEQUENCE(gseq).TIMES(1, 3).SIDE_EFFECT(gi = _1).LR_SIDE_EFFECT(loc = _2).RETURN(_1 + _2);'),
    ('clause order: TIMES before IN_SEQUENCE before WITH, THROW last', 'MAKE_MOCK1(f, int(int));', 'REQUIRE_CALL(m, f(1)).TIMES(AT_LEAST(2)).IN_SEQUENCE(gseq).WITH(true).SIDE_EFFECT(++gi).THROW(3);'),
    ('RT_TIMES with interval, void function without RETURN', 'MAKE_MOCK1(f, void(int));', 'ALLOW_CALL(m, f(trompeloeil::_)).WITH(_1 > 0); REQUIRE_CALL(m, f(0)).RT_TIMES(1, 2).IN_SEQUENCE(gseq, gseq2);'),
    ('FORBID_CALL with WITH only; NAMED_ forms', 'MAKE_MOCK1(f, int(int));', 'FORBID_CALL(m, f(trompeloeil::_)).WITH(_1 < 0); auto e = NAMED_ALLOW_CALL(m, f(trompeloeil::_)).RETURN(0); auto e2 = NAMED_REQUIRE_CALL(m, f(2)).TIMES(AT_MOST(3)).LR_RETURN(gi); (void)e; (void)e2;'),
    ('IN_SEQUENCE followed by an interval with lower bound 0', 'MAKE_MOCK1(f, void(int));', 'REQUIRE_CALL(m, f(trompeloeil::_)).IN_SEQUENCE(gseq).TIMES(AT_MOST(2)); REQUIRE_CALL(m, f(1)).IN_SEQUENCE(gseq).TIMES(0, 3); REQUIRE_CALL(m, f(2)).IN_SEQUENCE(gseq).TIMES(AT_LEAST(0));'),
    ('reference return and pointer return', 'MAKE_MOCK1(f, int&(int));', 'REQUIRE_CALL(m, f(trompeloeil::_)).LR_RETURN(gi); REQUIRE_CALL(m, f(1)).LR_RETURN(std::ref(gi));'),
    ('the variadic (_V) macro family, scoped and NAMED_', 'MAKE_MOCK1(f, int(int));\n  MAKE_MOCK1(v, void(int));',
     'REQUIRE_CALL_V(m, f(trompeloeil::_), .WITH(_1 > 0) .IN_SEQUENCE(gseq) .TIMES(2) .SIDE_EFFECT(++gi) .RETURN(1)); ALLOW_CALL_V(m, f(1), .RETURN(0)); FORBID_CALL_V(m, f(2)); FORBID_CALL_V(m, f(3), .WITH(_1 == 3) .LR_WITH(gi == 0));'
     ' REQUIRE_CALL_V(m, v(1)); ALLOW_CALL_V(m, v(2)); REQUIRE_CALL_V(m, v(3), .TIMES(AT_LEAST(1)) .LR_SIDE_EFFECT(++gi) .THROW(1));'
     ' auto e = NAMED_REQUIRE_CALL_V(m, f(4), .RETURN(0)); auto e2 = NAMED_ALLOW_CALL_V(m, f(5), .LR_RETURN(gi)); auto e3 = NAMED_FORBID_CALL_V(m, f(6)); auto e4 = NAMED_FORBID_CALL_V(m, f(7), .WITH(_1 == 7)); auto e5 = NAMED_ALLOW_CALL_V(m, v(4)); (void)e; (void)e2; (void)e3; (void)e4; (void)e5;'),
    ('trailing specifiers on MAKE_MOCK / MAKE_CONST_MOCK and the IMPLEMENT_MOCK family on mock_interface',
     'MAKE_MOCK0(unused, void()); };\nstruct IF { virtual ~IF() = default; virtual int f(int) = 0; virtual void g(int) const = 0; virtual int h() noexcept = 0; virtual int k(int, int) const noexcept = 0; };\n'
     'struct MI : IF {\n  MAKE_MOCK1(f, int(int), override);\n  MAKE_CONST_MOCK1(g, void(int), override);\n  MAKE_MOCK0(h, int(), noexcept override);\n  MAKE_CONST_MOCK2(k, int(int, int), noexcept override final);\n};\n'
     'struct MJ : trompeloeil::mock_interface<IF> {\n  IMPLEMENT_MOCK1(f);\n  IMPLEMENT_CONST_MOCK1(g);\n  IMPLEMENT_MOCK0(h, noexcept);\n  IMPLEMENT_CONST_MOCK2(k, noexcept);\n',
     'MI mi; const MI& cmi = mi; REQUIRE_CALL(mi, f(1)).RETURN(0); REQUIRE_CALL(cmi, g(trompeloeil::_)); ALLOW_CALL(mi, h()).RETURN(1); FORBID_CALL(cmi, k(1, trompeloeil::_)); IF& i = mi; (void)i.f(1); i.g(2);'
     ' MJ mj; const MJ& cmj = mj; REQUIRE_CALL(mj, f(trompeloeil::gt(0))).RETURN(_1); ALLOW_CALL(cmj, g(trompeloeil::_)).WITH(_1 > 0); REQUIRE_CALL(mj, h()).TIMES(AT_MOST(2)).RETURN(3); REQUIRE_CALL(cmj, k(trompeloeil::_, trompeloeil::_)).RETURN(_1 + _2); IF& j = mj; (void)j.f(1);'),
    ('coroutine clauses on a type whose promise comes from std::coroutine_traits only', 'MAKE_MOCK1(f, xtask(int));',
     'REQUIRE_CALL(m, f(trompeloeil::_)).CO_RETURN(_1 + 1); REQUIRE_CALL(m, f(1)).CO_YIELD(1).CO_YIELD(2).CO_RETURN(3); ALLOW_CALL(m, f(2)).CO_THROW(1); REQUIRE_CALL(m, f(3)).TIMES(2).LR_CO_RETURN(gi);', None, 'c++20'),
    # the long-macro configuration: every prefixed macro must work on its own (the short names do not exist)
    ('LONG_MACROS: every prefixed expectation macro and clause', 'TROMPELOEIL_MAKE_MOCK1(f, int(int));\n  TROMPELOEIL_MAKE_CONST_MOCK1(c, void(int));',  # one MAKE_MOCK per source line
     'int loc = 0; TROMPELOEIL_REQUIRE_CALL(m, f(trompeloeil::_)).TROMPELOEIL_WITH(_1 > 0).TROMPELOEIL_LR_WITH(_1 > loc).TROMPELOEIL_IN_SEQUENCE(gseq).TROMPELOEIL_TIMES(TROMPELOEIL_AT_LEAST(1)).TROMPELOEIL_SIDE_EFFECT(++gi).TROMPELOEIL_LR_SIDE_EFFECT(++loc).TROMPELOEIL_RETURN(1);'
     ' TROMPELOEIL_ALLOW_CALL(m, f(1)).TROMPELOEIL_LR_RETURN(loc); TROMPELOEIL_FORBID_CALL(m, f(2)); TROMPELOEIL_REQUIRE_CALL(m, c(1)).TROMPELOEIL_RT_TIMES(1, 2).TROMPELOEIL_THROW(1); TROMPELOEIL_REQUIRE_CALL(m, c(2)).TROMPELOEIL_TIMES(TROMPELOEIL_AT_MOST(2)).TROMPELOEIL_LR_THROW(loc);'
     ' auto e1 = TROMPELOEIL_NAMED_REQUIRE_CALL(m, f(3)).TROMPELOEIL_RETURN(0); auto e2 = TROMPELOEIL_NAMED_ALLOW_CALL(m, f(4)).TROMPELOEIL_RETURN(0); auto e3 = TROMPELOEIL_NAMED_FORBID_CALL(m, f(5)); (void)e1; (void)e2; (void)e3;'
     ' struct DW { virtual ~DW() = default; }; auto* dw = new trompeloeil::deathwatched<DW>(); TROMPELOEIL_REQUIRE_DESTRUCTION(*dw); auto e4 = TROMPELOEIL_NAMED_REQUIRE_DESTRUCTION(*dw).TROMPELOEIL_IN_SEQUENCE(gseq); (void)e4; delete dw;', 'TROMPELOEIL_LONG_MACROS'),
]


def extras(args):
    inc = args['inc']; work = args['work']
    violations = []
    n = 0
    pre = PREAMBLE + 'extern trompeloeil::sequence gseq2;\n'
    jobs = []
    minstd = {}
    for i, (desc, mock, body, want, std) in enumerate(EXTRA):
        src = pre + 'struct MX { %s };\nvoid probe(MX& m) { (void)m; %s }\n' % (mock, body)
        minstd[len(jobs)] = std
        jobs.append((desc, src, want))
    for i, legal in enumerate(LEGAL):
        desc, mock, body = legal[:3]
        define = ('#define %s\n' % legal[3]) if len(legal) > 3 and legal[3] else ''
        if len(legal) > 4:
            minstd[len(jobs)] = legal[4]
        src = define + pre + 'struct MX { %s };\nvoid probe(MX& m) { (void)m; %s }\n' % (mock, body)
        jobs.append((desc, src, None))

    def one(job):
        k, (desc, src, want), cxx, std = job
        path = os.path.join(work, 'extra_%d_%s_%s.cpp' % (k, cxx.replace('+', 'p'), std.replace('+', 'p')))
        open(path, 'w').write(src)
        rc, out = run([cxx, '-std=' + std, '-fsyntax-only', '-I' + inc, path])
        os.remove(path)
        if want is None:
            return None if rc == 0 else dict(kind='legal form', what=desc, compiler=cxx, std=std, why='documented legal combination does not compile', compiler_output=out[-3000:], source=src)
        if rc == 0:
            return dict(kind='misuse', what=desc, compiler=cxx, std=std, why='compiles, expected /%s/' % want, source=src)
        if want not in out:
            return dict(kind='misuse', what=desc, compiler=cxx, std=std, why='rejected without /%s/' % want, compiler_output=out[-3000:], source=src)
        return None

    all_jobs = [(k, j, cxx, std) for k, j in enumerate(jobs) for cxx in ('g++', 'clang++') for std in ('c++14', 'c++17', 'c++20') if std >= minstd.get(k, 'c++14')]
    with ThreadPoolExecutor(max_workers=NPROC) as ex:
        for r in ex.map(one, all_jobs):
            n += 1
            if r:
                violations.append(r)
    return n, violations


def macro_namespace(args):
    """With TROMPELOEIL_LONG_MACROS defined no header defines a macro outside the TROMPELOEIL_ prefix."""
    inc = args['inc']
    headers = ['trompeloeil.hpp']
    for d, _, fs in os.walk(os.path.join(inc, 'trompeloeil')):
        for f in sorted(fs):
            if f.endswith('.hpp'):
                headers.append(os.path.relpath(os.path.join(d, f), inc))
    violations = []
    checked = 0

    def macros(cxx, std, text):
        r = subprocess.run([cxx, '-std=' + std, '-dM', '-E', '-x', 'c++', '-I' + inc, '-'], input=text, stdout=subprocess.PIPE, stderr=subprocess.PIPE, universal_newlines=True)
        if r.returncode != 0:
            return None
        out = set()
        for l in r.stdout.splitlines():
            m = re.match(r'#define (\w+)', l)
            if m:
                out.add(m.group(1))
        return out

    for cxx in ('g++', 'clang++'):
        for std in ('c++14', 'c++20'):
            for h in headers:
                if 'coro' in h and std != 'c++20':
                    continue
                if 'cpp11_shenanigans' in h:
                    continue
                std_includes = '#include <trompeloeil/mock.hpp>\n' if h != 'trompeloeil/mock.hpp' and h != 'trompeloeil.hpp' else ''
                long_ = macros(cxx, std, '#define TROMPELOEIL_LONG_MACROS\n#include <%s>\n' % h)
                if long_ is None:
                    continue
                checked += 1
                # a short name X is a violation if TROMPELOEIL_X is a macro of the header and X itself is defined as well
                for name in sorted(long_):
                    if name.startswith('TROMPELOEIL_'):
                        short = name[len('TROMPELOEIL_'):]
                        if short and short in long_ and not short.startswith('_'):
                            violations.append(dict(kind='macro namespace', header=h, compiler=cxx, std=std, why='with TROMPELOEIL_LONG_MACROS defined the header still defines the short macro %s' % short))
    # de-duplicate per (header, macro)
    seen = set(); out = []
    for v in violations:
        k = (v['header'], v['why'])
        if k not in seen:
            seen.add(k); out.append(v)
    return checked, out


def main():
    a = {'tier': 'quick', 'repo': '/repo'}
    argv = sys.argv[1:]
    i = 0
    replay = None
    while i < len(argv):
        if argv[i] == '--replay':
            replay = argv[i + 1]
        else:
            a[argv[i].lstrip('-').replace('-', '_')] = argv[i + 1]
        i += 2
    a.setdefault('inc', os.path.join(a['repo'], 'include'))
    if replay:
        v = json.load(open(replay))['violation']
        print(json.dumps({k: v[k] for k in v if k not in ('compiler_output', 'source')}, indent=1))
        if 'source' in v:
            os.makedirs(a['work'], exist_ok=True)
            p = os.path.join(a['work'], 'replay.cpp'); open(p, 'w').write(v['source'])
            rc, out = run([v.get('compiler', 'g++'), '-std=' + v.get('std', 'c++14'), '-fsyntax-only', '-I' + a['inc'], p])
            print('compiler exit status %d\n%s' % (rc, out[-4000:]))
        return 1
    t0 = time.time()
    stats, v1, outcomes, wall1, cases = explore(a)
    nfiles, ncorpus, v2 = corpus(a)
    nextra, v3 = extras(a)
    nhdr, v4 = macro_namespace(a)
    violations = v1 + v2 + v3 + v4
    rep = a.get('replay_dir', '.')
    paths = []
    for k, v in enumerate(violations[:5]):
        p = os.path.join(rep, 'C19-%d.json' % (k + 1))
        json.dump({'property': 'C19', 'engine': 'compmc', 'what': v.get('why', ''), 'violation': v}, open(p, 'w'), indent=1)
        paths.append(p)
    samples = []
    for c in cases[::max(1, len(cases) // 6)][:6]:
        ok, d = predict(c[0], c[2], c[3])
        samples.append({'macro': ('NAMED_' if c[1] else '') + c[0], 'signature': c[2], 'clauses': list(c[3]), 'std': c[5], 'model': 'accept' if ok else 'reject: ' + d[0]})
    ev = {
        'property_id': 'C19', 'tier': a['tier'], 'seed': int(a.get('seed', 0)), 'level': 'model_checking',
        'coverage': {
            'states': stats['snippets'], 'transitions': stats['accepted'] + stats['rejected'], 'traces_validated_against_impl': stats['accepted'] + stats['rejected'],
            'clause_sequences': stats['snippets'], 'translation_units': stats['tus'], 'compiler_runs': stats['compiles'], 'accepted': stats['accepted'], 'rejected_with_documented_diagnostic': stats['rejected'],
            'rechecked_alone': stats['recheck'], 'shipped_negative_programs': nfiles, 'shipped_program_compiles_checked': ncorpus, 'single_feature_probes': nextra, 'headers_checked_for_macro_namespace': nhdr,
            'distinct_outcome_classes': len(outcomes), 'samples': samples, 'exhaustive': True,
            'rule': 'states = clause sequences (macro x signature kind x language level) enumerated up to the length bound; each is compiled by g++ and clang++ (one transition per compiler) and compared with the typestate automaton of DESIGN.md appendix D',
        },
        'assumptions': ['g++ 12 and clang++ 14 with libstdc++', 'the automaton in engines/compmc/compmc.py is the reading of the documented static_assert texts', 'clause sequences up to length %d' % (2 if a['tier'] == 'quick' else 3)],
        'wall_s': round(time.time() - t0, 2), 'violations': len(violations),
    }
    if a.get('evidence'):
        json.dump(ev, open(a['evidence'], 'w'), indent=1)
    print('[C19 %s] sequences=%d compiler_runs=%d accepted=%d rejected=%d rechecked=%d corpus=%d/%d files extras=%d headers=%d violations=%d wall=%.1fs' % (
        a['tier'], stats['snippets'], stats['compiles'], stats['accepted'], stats['rejected'], stats['recheck'], ncorpus, nfiles, nextra, nhdr, len(violations), time.time() - t0), file=sys.stderr)
    for p in paths:
        print('VIOLATION property=C19 replay=%s' % p)
    return 1 if violations else 0


if __name__ == '__main__':
    sys.exit(main())
