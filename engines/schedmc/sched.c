/* Engine E2 "schedmc": cooperative scheduler. Compiled WITHOUT any sanitizer and handing over with raw
 * futex system calls, so that its hand-offs are invisible to ThreadSanitizer and create no happens-before
 * edges: TSan sees exactly the library's own synchronisation.
 *
 * Exactly one worker thread runs at a time. A scheduling point is the request of the library's global lock
 * (outermost acquisition) - the choice "which thread enters its next critical section". A thread runs from
 * the grant of the lock through the critical section and the unlocked code after it, up to its next lock
 * request or its end. Before the first choice every thread is advanced to its first lock request. */
#define _GNU_SOURCE
#include <linux/futex.h>
#include <sys/syscall.h>
#include <unistd.h>
#include <stdio.h>
#include <stdlib.h>
#include <string.h>

#define MAXT 4
#define MAXP 512
enum { ST_NEW = 0, ST_RUN = 1, ST_WANT = 2, ST_DONE = 3 };

static volatile int current = -1; /* thread allowed to run; -2: all done, main may continue */
static volatile int state[MAXT];
static volatile int lock_owner = -1;
static int lock_depth[MAXT];
static int nthreads;
static int choices[MAXP], nchoices, pos;
static int nenab[MAXP], chosen[MAXP], granted[MAXP], npts;
static int deadlock, bad_choice, preemptions, last_running = -1;

static void fwait(volatile int* a, int v) { syscall(SYS_futex, a, FUTEX_WAIT, v, 0, 0, 0); }
static void fwake(volatile int* a) { syscall(SYS_futex, a, FUTEX_WAKE, 64, 0, 0, 0); }

void sched_init(int n, const int* ch, int nch) {
  nthreads = n;
  memset((void*)state, 0, sizeof state);
  memset(lock_depth, 0, sizeof lock_depth);
  lock_owner = -1; current = -1; nchoices = nch;
  if (nch) memcpy(choices, ch, (size_t)nch * sizeof(int));
  pos = 0; npts = 0; deadlock = 0; bad_choice = 0; preemptions = 0; last_running = -1;
}

static void give(int t) { current = t; __sync_synchronize(); fwake(&current); }

/* called by the thread that stops running (me), or by main (me = -1) */
static void pick(int me) {
  int t;
  /* start-up phase: advance every thread to its first lock request, in index order, without a choice */
  for (t = 0; t < nthreads; t++) if (state[t] == ST_NEW) { state[t] = ST_RUN; give(t); return; }
  int en[MAXT], k = 0;
  /* canonical order: the thread that just ran first (continuing it is not a preemption), then ascending ids */
  if (me >= 0 && state[me] == ST_WANT) en[k++] = me;
  for (t = 0; t < nthreads; t++) if (t != me && state[t] == ST_WANT) en[k++] = t;
  if (k == 0) {
    for (t = 0; t < nthreads; t++) if (state[t] != ST_DONE) deadlock = 1;
    give(-2);
    return;
  }
  int c = pos < nchoices ? choices[pos] : 0;
  pos++;
  if (c >= k) { bad_choice = 1; c = 0; }
  if (npts < MAXP) { nenab[npts] = k; chosen[npts] = c; granted[npts] = en[c]; npts++; }
  if (me >= 0 && state[me] == ST_WANT && en[c] != me) preemptions++;
  lock_owner = en[c]; state[en[c]] = ST_RUN;
  give(en[c]);
}

static void wait_turn(int me) { for (;;) { int c = current; if (c == me) return; fwait(&current, c); } }

void sched_thread_start(int me) { wait_turn(me); }
void sched_main_go(void) { pick(-1); }
void sched_main_wait(void) { for (;;) { int c = current; if (c == -2) return; fwait(&current, c); } }

void sched_lock(int me) {
  if (lock_depth[me] > 0) { lock_depth[me]++; return; }
  state[me] = ST_WANT;
  pick(me);
  wait_turn(me);
  lock_depth[me] = 1;
}
void sched_unlock(int me) {
  if (--lock_depth[me] > 0) return;
  lock_owner = -1; /* keep running: the next scheduling point is this thread's next lock request or its end */
}
void sched_done(int me) { state[me] = ST_DONE; pick(me); }

int sched_points(int* nen, int* ch, int* gr) {
  memcpy(nen, nenab, (size_t)npts * sizeof(int)); memcpy(ch, chosen, (size_t)npts * sizeof(int)); memcpy(gr, granted, (size_t)npts * sizeof(int));
  return npts;
}
int sched_deadlock(void) { return deadlock; }
int sched_bad_choice(void) { return bad_choice; }
int sched_preemptions(void) { return preemptions; }

/* ThreadSanitizer calls this (weak in its runtime) for every report it prints; counted here, uninstrumented */
static volatile long tsan_reports;
void __tsan_on_report(void* rep) { (void)rep; __sync_fetch_and_add(&tsan_reports, 1); }
long sched_tsan_reports(void) { return tsan_reports; }
