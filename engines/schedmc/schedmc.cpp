// Engine E2 "schedmc": every schedule (at critical-section granularity) of tiny multi-threaded programs
// on the real library, ThreadSanitizer on every schedule, results checked for linearizability against
// the reference model's atomic steps (DESIGN.md 3.3, appendix B). Decides C12.
#define TROMPELOEIL_CUSTOM_RECURSIVE_MUTEX
#include <trompeloeil.hpp>
#include "model.hpp"
#include <chrono>
#include <csignal>
#include <cstdio>
#include <cstdlib>
#include <fstream>
#include <functional>
#include <map>
#include <set>
#include <thread>
#include <array>
#include <sys/wait.h>
#include <unistd.h>

extern "C" {
void sched_init(int, const int*, int);
void sched_thread_start(int);
void sched_main_go(void);
void sched_main_wait(void);
void sched_lock(int);
void sched_unlock(int);
void sched_done(int);
int sched_points(int*, int*, int*);
int sched_deadlock(void);
int sched_bad_choice(void);
int sched_preemptions(void);
}

static volatile sig_atomic_t g_time_up = 0;   // set by the per-program time limit: stop taking new work, record the program as capped
static thread_local int me = -1;  // worker index inside an explored execution, -1 = main thread

namespace trompeloeil {
std::unique_ptr<custom_recursive_mutex> create_custom_recursive_mutex() {
  struct custom : custom_recursive_mutex {
    std::recursive_mutex inner;  // the real mutex: TSan sees the library's own synchronisation through it
    void lock() override { if (me >= 0) sched_lock(me); inner.lock(); }
    void unlock() override { inner.unlock(); if (me >= 0) sched_unlock(me); }
  };
  return std::unique_ptr<custom>(new custom);
}
}  // namespace trompeloeil

// ---- ThreadSanitizer report hook (weak in the runtime, overridden here) ----
// The hook itself lives in the uninstrumented scheduler TU: an instrumented hook would make TSan check the
// counter access while it holds its report lock and deadlock against itself.
extern "C" long sched_tsan_reports(void);
#define g_tsan_reports sched_tsan_reports()

// ---- tables the model needs ----
namespace hm {
const Shape g_shapes[] = {
  /*0 A0 / op4 */ {MOCK_M, F1, MK_ANY, MK_ANY, 0, 0, 0, TF_ALLOW, 0, 0, ACT_RET, "A"},
  /*1 Q1       */ {MOCK_M, F1, MK_EQ, MK_ANY, 0, 0, 1, TF_ATLEAST, 1, 0, ACT_RET, "QTA"},
  /*2 Q2 / op7 */ {MOCK_M, G1, MK_ANY, MK_ANY, 0, 0, 2, TF_DEFAULT, 0, 0, ACT_RET, "QA"},
  /*3 D        */ {MOCK_WATCHED, F1, MK_ANY, MK_ANY, 0, 0, 1, TF_DEFAULT, 0, 0, ACT_NONE, "Q"},
  /*4 Q3       */ {MOCK_M, F1, MK_ANY, MK_ANY, 0, 0, 1, TF_DEFAULT, 0, 0, ACT_RET, "QA"},
  /*5 op3      */ {MOCK_M, F1, MK_EQ, MK_ANY, 0, 0, 0, TF_DEFAULT, 0, 0, ACT_RET, "A"},
  /*6 op5/6    */ {MOCK_M, G1, MK_ANY, MK_ANY, 0, 0, 1, TF_N, 2, 0, ACT_RET, "QTA"},
  /*7 op15     */ {MOCK_M, G1, MK_ANY, MK_ANY, 0, 0, 1, TF_ATMOST, 2, 0, ACT_RET, "QTA"},
  /*8 A0       */ {MOCK_M, F1, MK_ANY, MK_ANY, 0, 1, 0, TF_ALLOW, 0, 0, ACT_RET, "SA"},   // its side effect constructs a tracer (inside the call, i.e. under the library's lock)
};
const int g_nshapes = 9;
static const Site g_nosite = {"", 0UL, ""};
const Site& site_of(int, int) { return g_nosite; }
bool site_exists(int, int) { return false; }
}  // namespace hm
using namespace hm;

struct Fatal { int kind; };
struct M {
  MAKE_MOCK1(f, int(int));
  MAKE_MOCK1(g, int(int));
};
// a movable mock class: its expectation lists live in the primary (movable) variant of the container, with a destructor of its own
struct M2 {
  static constexpr bool trompeloeil_movable_mock = true;
  MAKE_MOCK1(f, int(int));
};
struct MWb { virtual ~MWb() = default; };
using WObj = trompeloeil::deathwatched<MWb>;
using E = std::unique_ptr<trompeloeil::expectation>;

enum { S_A0 = 0, S_Q1 = 1, S_Q2 = 2, S_D = 3, S_Q3 = 4, S_FIRST_CREATED = 5 };
enum { NOPS = 23, MAXT = 3, MAXOPS = 3 };
static const char* OPN[NOPS] = {"call m.f(1)", "call m.f(0)", "call m.g(1)", "create REQUIRE_CALL(m,f(1))", "create+release ALLOW_CALL(m,f(_))",
  "create REQUIRE_CALL(m,g(_)).IN_SEQUENCE(s).TIMES(2)", "create REQUIRE_CALL(m,g(_)).TIMES(2).IN_SEQUENCE(s)", "create REQUIRE_CALL(m,g(_)).IN_SEQUENCE(s,s2)",
  "release Q1", "release A0", "Q2.is_satisfied();Q2.is_saturated()", "s.is_completed()", "delete w", "release D", "destroy m2",
  "create REQUIRE_CALL(m,g(_)).IN_SEQUENCE(s3).TIMES(AT_MOST(2))", "s3.is_completed()", "release Q3 (expectation on m2)",
  "create REQUIRE_DESTRUCTION(*w).IN_SEQUENCE(s3)", "D.is_satisfied();D.is_saturated()", "Q1.is_satisfied();Q1.is_saturated()",
  "create REQUIRE_CALL(m,g(_)).TIMES(AT_MOST(2)).IN_SEQUENCE(s3)", "own mock: create it, ALLOW_CALL, call, destroy (nothing shared but the library's lock)"};
// a program made of operation 22 only is a "cold start": the main thread does not touch the library before the workers do (the
// fixture is built after they have finished), so the very first acquisitions of the library's lock are concurrent
static bool cold_start(const struct Program& p);

struct Program { int nt; int nops[MAXT]; int op[MAXT][MAXOPS]; };
static std::string prog_str(const Program& p) {
  std::string s;
  for (int t = 0; t < p.nt; ++t) { s += (t ? " || " : ""); s += "T" + std::to_string(t) + ": "; for (int j = 0; j < p.nops[t]; ++j) { if (j) s += "; "; s += OPN[p.op[t][j]]; } }
  return s;
}
static bool cold_start(const Program& p) { for (int t = 0; t < p.nt; ++t) for (int j = 0; j < p.nops[t]; ++j) if (p.op[t][j] != 22) return false; return true; }
static int created_slot(const Program& p, int t, int j) {  // model slot of the expectation created by op j of thread t
  int k = S_FIRST_CREATED;
  static_assert(S_FIRST_CREATED + 6 <= NSLOT, "every operation of the largest program shape (2x3, 3x2) needs a slot of its own");
  for (int a = 0; a < p.nt; ++a) for (int b = 0; b < p.nops[a]; ++b) { if (a == t && b == j) return k; ++k; }
  return -1;
}

// -------------------------------------------------------------------------------------------------
// implementation side: one execution of a program under a choice sequence
// -------------------------------------------------------------------------------------------------
struct ThreadLog { std::vector<std::string> reports; };
static ThreadLog g_tlog[MAXT + 1];  // per worker, last = main

// tracers are constructed by A0's side effect - user code running inside a mock call, so their registration is ordered with
// every other call by the library's own lock - and stay alive to the end of the program; a record is an item of the traced
// call's result
struct SchedTracer : trompeloeil::tracer {
  void trace(char const*, unsigned long, std::string const&) override { g_tlog[me >= 0 ? me : MAXT].reports.push_back("N:trace"); }
};
static std::unique_ptr<SchedTracer> g_tr[NTRC];
static int g_ntr = 0;
static void make_tracer() { if (g_ntr < NTRC) g_tr[g_ntr++].reset(new SchedTracer); }

static const char* report_kind(const std::string& m) {
  if (m.rfind("No match for call", 0) == 0) return "nomatch";
  if (m.rfind("Match of forbidden call", 0) == 0) return "forbidden";
  if (m.rfind("Sequence mismatch", 0) == 0) return "seqmis";
  if (m.rfind("Unfulfilled expectation", 0) == 0) return "unfulfilled";
  if (m.rfind("Pending expectation on destroyed mock object", 0) == 0) return "pending_destroyed";
  if (m.rfind("Sequence expectations not met", 0) == 0) return "seq_teardown";
  if (m.find(" is still alive") != std::string::npos) return "still_alive";
  if (m.rfind("Unexpected destruction", 0) == 0) return "unexpected_destruction";
  return "other";
}
static void reporter(trompeloeil::severity s, char const*, unsigned long, std::string const& msg) {
  bool fatal = s == trompeloeil::severity::fatal;
  int idx = me >= 0 ? me : MAXT;
  g_tlog[idx].reports.push_back(std::string(fatal ? "F:" : "N:") + report_kind(msg));
  if (fatal) throw Fatal{0};
}
static std::string take_reports(int t) {
  auto& v = g_tlog[t].reports; std::sort(v.begin(), v.end());
  std::string s; for (auto& r : v) { s += r; s += ','; } v.clear(); return s;
}

struct ExecResult { std::vector<std::string> res[MAXT]; std::string final_obs; int npoints = 0; std::vector<int> nen, granted; bool deadlock = false, bad_choice = false; int preemptions = 0; };

static std::string call_res(std::function<int()> f, int t) {
  try { int v = f(); std::string r = "r:" + std::to_string(v); std::string rep = take_reports(t); return r + " +" + rep; }
  catch (Fatal&) { return take_reports(t); }
}

static ExecResult execute(const Program& p, const std::vector<int>& choices) {
  ExecResult R;
  for (auto& l : g_tlog) l.reports.clear();
  sched_init(p.nt, choices.data(), (int)choices.size());
  // fixture, built by the main thread (no scheduling)
  std::unique_ptr<M> m(new M); std::unique_ptr<M2> m2(new M2);
  std::unique_ptr<trompeloeil::sequence> s(new trompeloeil::sequence), s2(new trompeloeil::sequence), s3(new trompeloeil::sequence);
  std::unique_ptr<WObj> w(new WObj);
  E slot[NSLOT];
  const bool cold = cold_start(p);
  auto build_fixture = [&] {
  slot[S_A0] = NAMED_ALLOW_CALL(*m, f(trompeloeil::_)).SIDE_EFFECT(make_tracer()).RETURN(100 + S_A0);
  slot[S_Q1] = NAMED_REQUIRE_CALL(*m, f(1)).IN_SEQUENCE(*s).TIMES(AT_LEAST(1)).RETURN(100 + S_Q1);
  slot[S_Q2] = NAMED_REQUIRE_CALL(*m, g(trompeloeil::_)).IN_SEQUENCE(*s, *s2).RETURN(100 + S_Q2);
  slot[S_D] = NAMED_REQUIRE_DESTRUCTION(*w).IN_SEQUENCE(*s2);
  slot[S_Q3] = NAMED_REQUIRE_CALL(*m2, f(trompeloeil::_)).IN_SEQUENCE(*s).RETURN(100 + S_Q3);
  };
  if (!cold) build_fixture();
  auto body = [&](int t) {
    me = t;
    sched_thread_start(t);
    for (int j = 0; j < p.nops[t]; ++j) {
      int cs = created_slot(p, t, j); int v = 100 + cs; std::string r;
      switch (p.op[t][j]) {
        case 0: r = call_res([&] { return m->f(1); }, t); break;
        case 1: r = call_res([&] { return m->f(0); }, t); break;
        case 2: r = call_res([&] { return m->g(1); }, t); break;
        case 3: slot[cs] = NAMED_REQUIRE_CALL(*m, f(1)).RETURN(v); r = "ok"; break;
        case 4: { { auto e = NAMED_ALLOW_CALL(*m, f(trompeloeil::_)).RETURN(v); } r = "ok rel:" + take_reports(t); break; }
        case 5: slot[cs] = NAMED_REQUIRE_CALL(*m, g(trompeloeil::_)).IN_SEQUENCE(*s).TIMES(2).RETURN(v); r = "ok"; break;
        case 6: slot[cs] = NAMED_REQUIRE_CALL(*m, g(trompeloeil::_)).TIMES(2).IN_SEQUENCE(*s).RETURN(v); r = "ok"; break;
        case 7: slot[cs] = NAMED_REQUIRE_CALL(*m, g(trompeloeil::_)).IN_SEQUENCE(*s, *s2).RETURN(v); r = "ok"; break;
        case 8: slot[S_Q1].reset(); r = "rel:" + take_reports(t); break;
        case 9: slot[S_A0].reset(); r = "rel:" + take_reports(t); break;
        case 10: { bool a = slot[S_Q2]->is_satisfied(); bool b = slot[S_Q2]->is_saturated(); r = std::string("q:") + (a ? '1' : '0') + (b ? '1' : '0'); break; }
        case 11: r = std::string("c:") + (s->is_completed() ? '1' : '0'); break;
        case 12: w.reset(); r = "del:" + take_reports(t); break;
        case 13: slot[S_D].reset(); r = "rel:" + take_reports(t); break;
        case 14: m2.reset(); r = "dm:" + take_reports(t); break;
        case 15: slot[cs] = NAMED_REQUIRE_CALL(*m, g(trompeloeil::_)).IN_SEQUENCE(*s3).TIMES(AT_MOST(2)).RETURN(v); r = "ok"; break;
        case 16: r = std::string("c:") + (s3->is_completed() ? '1' : '0'); break;
        case 17: slot[S_Q3].reset(); r = "rel:" + take_reports(t); break;
        case 18: slot[cs] = NAMED_REQUIRE_DESTRUCTION(*w).IN_SEQUENCE(*s3); r = "ok"; break;
        case 19: { bool a = slot[S_D]->is_satisfied(); bool b = slot[S_D]->is_saturated(); r = std::string("q:") + (a ? '1' : '0') + (b ? '1' : '0'); break; }
        case 20: { bool a = slot[S_Q1]->is_satisfied(); bool b = slot[S_Q1]->is_saturated(); r = std::string("q:") + (a ? '1' : '0') + (b ? '1' : '0'); break; }
        case 21: slot[cs] = NAMED_REQUIRE_CALL(*m, g(trompeloeil::_)).TIMES(AT_MOST(2)).IN_SEQUENCE(*s3).RETURN(v); r = "ok"; break;
        case 22: { std::unique_ptr<M> own(new M); int got; { auto e = NAMED_ALLOW_CALL(*own, f(trompeloeil::_)).RETURN(_1 + 40); got = own->f(2); } own.reset();
          std::string rep = take_reports(t); for (size_t q; (q = rep.find("N:trace,")) != std::string::npos;) rep.erase(q, 8);   // whether a tracer of the shared fixture exists by then is not this operation's business
          r = "own:" + std::to_string(got) + rep; break; }
      }
      R.res[t].push_back(r);
    }
    sched_done(t);
  };
  std::vector<std::thread> th;
  for (int t = 0; t < p.nt; ++t) th.emplace_back(body, t);
  sched_main_go();
  sched_main_wait();
  for (auto& x : th) x.join();
  if (cold) build_fixture();
  // final observation by the main thread
  std::string q;
  for (int i = 0; i < NSLOT; ++i) if (slot[i]) q += std::to_string(i) + ':' + (slot[i]->is_satisfied() ? '1' : '0') + (slot[i]->is_saturated() ? '1' : '0') + ' ';
  q += '|'; q += s->is_completed() ? '1' : '0'; q += s2->is_completed() ? '1' : '0'; q += s3->is_completed() ? '1' : '0';
  R.final_obs = q;
  // quiet teardown
  while (g_ntr > 0) g_tr[--g_ntr].reset();
  for (auto& e : slot) e.reset();
  w.reset(); m.reset(); m2.reset(); s.reset(); s2.reset(); s3.reset();
  for (auto& l : g_tlog) l.reports.clear();
  int nen[512], ch[512], gr[512];
  R.npoints = sched_points(nen, ch, gr);
  R.nen.assign(nen, nen + R.npoints); R.granted.assign(gr, gr + R.npoints);
  R.deadlock = sched_deadlock(); R.bad_choice = sched_bad_choice(); R.preemptions = sched_preemptions();
  return R;
}
static std::string result_key(const Program& p, const ExecResult& r) {
  std::string k;
  for (int t = 0; t < p.nt; ++t) { k += "T" + std::to_string(t) + "["; for (auto& x : r.res[t]) { k += x; k += ';'; } k += "] "; }
  return k + "final{" + r.final_obs + "}";
}

// -------------------------------------------------------------------------------------------------
// model side: atomic steps of every operation, all program-order-respecting interleavings
// -------------------------------------------------------------------------------------------------
struct Micro { int kind; int a, b, c; int d = 0; Micro(int k, int a_, int b_, int c_, int d_ = 0) : kind(k), a(a_), b(b_), c(c_), d(d_) {} };  // kinds below
enum { MI_MONITOR = 100, MI_BEGIN_REG_LH = 101, MI_OWN = 102, MI_CALL = 0, MI_CREATE_HOOK, MI_BEGIN_REG, MI_REG, MI_BOUNDS, MI_HOOK, MI_RELEASE, MI_QSAT, MI_QSATUR, MI_QCOMP, MI_DELETE_W, MI_DECOM_ACT, MI_DECOM_SAT };

static std::vector<Micro> micro_of(int op, int cs) {
  switch (op) {
    case 0: return {{MI_CALL, F1, 1, 0}};
    case 1: return {{MI_CALL, F1, 0, 0}};
    case 2: return {{MI_CALL, G1, 1, 0}};
    case 3: return {{MI_CREATE_HOOK, cs, 5, 0}};
    case 4: return {{MI_CREATE_HOOK, cs, 0, 0}, {MI_RELEASE, cs, 0, 0}};
    case 5: return {{MI_BEGIN_REG, cs, 6, 1 /*default bounds*/}, {MI_BOUNDS, cs, 2, 2}, {MI_HOOK, cs, 0, 0}};
    case 6: return {{MI_BEGIN_REG, cs, 6, 2 /*TIMES(2) already given*/}, {MI_HOOK, cs, 0, 0}};
    case 7: return {{MI_BEGIN_REG, cs, 2, 1}, {MI_REG, cs, 1, 0}, {MI_HOOK, cs, 0, 0}};
    case 8: return {{MI_RELEASE, S_Q1, 0, 0}};
    case 9: return {{MI_RELEASE, S_A0, 0, 0}};
    case 10: return {{MI_QSAT, S_Q2, 0, 0}, {MI_QSATUR, S_Q2, 0, 0}};
    case 11: return {{MI_QCOMP, 0, 0, 0}};
    case 12: return {{MI_DELETE_W, 0, 0, 0}};
    case 13: return {{MI_RELEASE, S_D, 0, 0}};
    case 14: return {{MI_DECOM_ACT, 1, F1, 0}, {MI_DECOM_SAT, 1, F1, 0}};
    case 15: return {{MI_BEGIN_REG, cs, 7, 1, 2 /*sequence s3*/}, {MI_BOUNDS, cs, 0, 2}, {MI_HOOK, cs, 0, 0}};
    case 16: return {{MI_QCOMP, 2, 0, 0}};
    case 17: return {{MI_RELEASE, S_Q3, 0, 0}};
    case 18: return {{MI_MONITOR, cs, 0, 0}, {MI_REG, cs, 2, 0}};
    case 19: return {{MI_QSAT, S_D, 0, 0}, {MI_QSATUR, S_D, 0, 0}};
    case 20: return {{MI_QSAT, S_Q1, 0, 0}, {MI_QSATUR, S_Q1, 0, 0}};
    case 21: return {{MI_BEGIN_REG_LH, cs, 7, 0 * 100 + 2 /*AT_MOST(2) already given*/, 2 /*sequence s3*/}, {MI_HOOK, cs, 0, 0}};
    case 22: return {{MI_OWN, 0, 0, 0}};
  }
  return {};
}
static std::string reps_str(const Outcome& o) {
  std::vector<std::string> v;
  static const char* RK[] = {"nomatch", "forbidden", "seqmis", "unfulfilled", "pending_destroyed", "seq_teardown", "still_alive", "unexpected_destruction", "other"};
  for (auto& r : o.reps) v.push_back(std::string(r.fatal ? "F:" : "N:") + RK[r.kind] + (r.optional ? "?" : ""));  // '?': the statement allows 0 or 1 of it
  for (auto& t : o.traces) v.push_back(!t.empty() && t[0] == '?' ? "N:trace?" : "N:trace");                          // a trace record delivered during the call
  std::sort(v.begin(), v.end());
  std::string s; for (auto& x : v) { s += x; s += ','; } return s;
}
static Model initial_model() {
  Model md; md.st = Model::initial();
  md.st.obj_alive[2] = 0;
  md.st.wat_alive[0] = 1;
  auto mk = [&](int slot, int shape, int obj, int k1, int lo, int hi, std::vector<int> seqs) {
    md.micro_begin(slot, shape, obj, k1, lo, hi);
    for (int q : seqs) md.micro_register(slot, q);
    md.micro_hook(slot);
  };
  mk(S_A0, 8, 0, 0, 0, INF, {});
  md.st.e[S_A0].semode[0] = 4;   // constructs a tracer
  mk(S_Q1, 1, 0, 1, 1, INF, {0});
  mk(S_Q2, 2, 0, 0, 1, 1, {0, 1});
  mk(S_D, 3, 0, 0, 1, 1, {1});
  mk(S_Q3, 4, 1, 0, 1, 1, {0});
  return md;
}
struct MThread { std::vector<std::vector<Micro>> ops; };
static std::string apply_micro(Model& md, const Micro& mi, std::string& acc) {
  // returns a non-empty string when the micro-step contributes to the operation's result
  switch (mi.kind) {
    case MI_CALL: {
      Op op; memset(&op, 0, sizeof op); op.kind = OP_CALL; op.obj = 0; op.fn = (int8_t)mi.a; op.a1 = (int8_t)mi.b;
      Outcome o = md.step(op);
      if (o.kind == OK_ACCEPT) { std::string tr = reps_str(o); acc = "r:" + std::to_string(100 + o.handler) + " +" + tr; } else acc = reps_str(o);
      break;
    }
    case MI_CREATE_HOOK: { const Shape& sh = g_shapes[mi.b]; int lo, hi; Op d; memset(&d, 0, sizeof d); Model::bounds_of(sh, d, lo, hi); md.micro_begin(mi.a, mi.b, 0, 1, lo, hi); md.micro_hook(mi.a); acc = "ok"; break; }
    case MI_BEGIN_REG: md.micro_begin(mi.a, mi.b, 0, 0, mi.c, mi.c); md.micro_register(mi.a, mi.d); acc = "ok"; break;
    case MI_BEGIN_REG_LH: md.micro_begin(mi.a, mi.b, 0, 0, mi.c / 100, mi.c % 100); md.micro_register(mi.a, mi.d); acc = "ok"; break;
    case MI_OWN: acc = "own:42"; break;   // touches nothing of the shared fixture
    case MI_REG: md.micro_register(mi.a, mi.b); break;
    case MI_MONITOR: md.micro_begin(mi.a, 3, 0, 0, 1, 1); md.micro_hook(mi.a); acc = "ok"; break;  // a second requirement on the watched object w
    case MI_BOUNDS: md.micro_bounds(mi.a, mi.b, mi.c); break;
    case MI_HOOK: md.micro_hook(mi.a); break;
    case MI_RELEASE: { Op op; memset(&op, 0, sizeof op); op.kind = OP_RELEASE; op.slot = (int8_t)mi.a; Outcome o = md.step(op); acc += (acc.empty() ? "rel:" : " rel:") + reps_str(o); break; }
    case MI_QSAT: acc = std::string("q:") + (md.satisfied(md.st.e[mi.a]) ? '1' : '0'); break;
    case MI_QSATUR: { auto& e = md.st.e[mi.a]; acc += (e.is_monitor ? (bool)e.died : (e.hi != INF && e.count == e.hi)) ? '1' : '0'; break; }
    case MI_QCOMP: { Outcome o; md.observe(o); acc = std::string("c:") + o.qseq[(size_t)mi.a]; break; }
    case MI_DELETE_W: { Op op; memset(&op, 0, sizeof op); op.kind = OP_DELETE_WATCHED; op.obj = 0; Outcome o = md.step(op); acc = "del:" + reps_str(o); break; }
    case MI_DECOM_ACT: { Outcome o; md.micro_decommission(mi.a, mi.b, false, o); acc = "dm:" + reps_str(o); break; }
    case MI_DECOM_SAT: { Outcome o; md.micro_decommission(mi.a, mi.b, true, o); std::string r = reps_str(o); if (!r.empty()) acc += r; md.st.obj_alive[mi.a] = 0; break; }
  }
  return acc;
}
struct LinState { Model md; int opi[MAXT], mii[MAXT]; std::vector<std::string> res[MAXT]; std::string acc[MAXT]; };
static void linearize(const Program& p, const std::vector<std::vector<std::vector<Micro>>>& mt, LinState st, std::set<std::string>& out, long& nodes) {
  if (g_time_up) return;   // the set is incomplete then: the caller does not judge any result against it
  bool any = false;
  for (int t = 0; t < p.nt; ++t) {
    if (st.opi[t] >= p.nops[t]) continue;
    any = true; ++nodes;
    LinState n = st;
    const Micro& mi = mt[(size_t)t][(size_t)n.opi[t]][(size_t)n.mii[t]];
    apply_micro(n.md, mi, n.acc[t]);
    if (++n.mii[t] >= (int)mt[(size_t)t][(size_t)n.opi[t]].size()) { n.res[t].push_back(n.acc[t]); n.acc[t].clear(); n.mii[t] = 0; ++n.opi[t]; }
    linearize(p, mt, n, out, nodes);
  }
  if (!any) {
    Outcome o; st.md.observe(o);
    std::string k;
    for (int t = 0; t < p.nt; ++t) { k += "T" + std::to_string(t) + "["; for (auto& x : st.res[t]) { k += x; k += ';'; } k += "] "; }
    k += "final{" + o.qexp + "|" + o.qseq + "}";
    // expand optional reports ("kind?,"): present or absent
    std::vector<std::string> todo{k};
    while (!todo.empty()) {
      std::string x = todo.back(); todo.pop_back();
      size_t q = x.find("?,");
      if (q == std::string::npos) { out.insert(x); continue; }
      size_t b = x.rfind(':', q); b = x.rfind(':', b - 1) == std::string::npos ? b : b;  // start of "N:kind?"
      size_t start = q; while (start > 0 && x[start - 1] != ',' && x[start - 1] != ':' ) --start;
      // the item is "<sev>:<kind>?," - find its beginning (after the previous ',' or after "rel:" / "del:" / "dm:")
      size_t item = x.rfind("N:", q); if (item == std::string::npos) item = start;
      std::string with = x; with.erase(q, 1);
      std::string without = x; without.erase(item, q + 2 - item);
      todo.push_back(with); todo.push_back(without);
    }
  }
}
static std::set<std::string> allowed_results(const Program& p, long& nodes) {
  std::vector<std::vector<std::vector<Micro>>> mt((size_t)p.nt);
  for (int t = 0; t < p.nt; ++t) for (int j = 0; j < p.nops[t]; ++j) mt[(size_t)t].push_back(micro_of(p.op[t][j], created_slot(p, t, j)));
  LinState st; st.md = initial_model();
  for (int t = 0; t < MAXT; ++t) { st.opi[t] = 0; st.mii[t] = 0; }
  std::set<std::string> out;
  linearize(p, mt, st, out, nodes);
  return out;
}

// -------------------------------------------------------------------------------------------------
// explorer
// -------------------------------------------------------------------------------------------------
struct ProgStats { long schedules = 0, points = 0, nodes = 0, lin_nodes = 0, races = 0, nonlin = 0, deadlocks = 0, nondet = 0; int max_preempt = 0; std::set<std::string> outcomes; std::vector<int> bad_choices; std::string bad_what, bad_result; size_t allowed = 0; bool capped = false; };

static void explore(const Program& p, const std::set<std::string>& allowed, std::vector<int> prefix, int bound, ProgStats& st, long max_sched) {
  if (st.schedules >= max_sched || g_time_up) { st.capped = true; return; }
  long before = g_tsan_reports;
  ExecResult r = execute(p, prefix);
  ++st.schedules; st.points += r.npoints; st.nodes += r.npoints - (long)prefix.size() + 1; st.max_preempt = std::max(st.max_preempt, r.preemptions);
  std::string key = result_key(p, r);
  st.outcomes.insert(key);
  auto record = [&](const std::string& what) { if (st.bad_choices.empty() && st.bad_what.empty()) { st.bad_choices = prefix; st.bad_choices.resize((size_t)r.npoints, 0); st.bad_what = what; st.bad_result = key; } };
  if (r.bad_choice) { fprintf(stderr, "HARNESS: choice out of range while replaying a prefix\n"); ++st.nondet; return; }
  if (g_tsan_reports != before) { ++st.races; record("ThreadSanitizer reported a data race in this schedule"); }
  if (r.deadlock) { ++st.deadlocks; record("deadlock: no thread can proceed although not all have finished"); }
  if (!allowed.count(key)) {
    // replay the same schedule once more: identical observations are required before it is reported
    std::vector<int> full = prefix; full.resize((size_t)r.npoints, 0);
    ExecResult r2 = execute(p, full); ++st.schedules;
    if (result_key(p, r2) != key) { ++st.nondet; fprintf(stderr, "HARNESS: schedule does not replay deterministically\n  1: %s\n  2: %s\n", key.c_str(), result_key(p, r2).c_str()); }
    else { ++st.nonlin; record("results are not those of any order of the operations' atomic steps consistent with program order (not linearizable)"); }
  }
  // branch on every alternative after the prefix, within the preemption budget
  for (size_t i = prefix.size(); i < r.nen.size(); ++i) {
    for (int alt = 1; alt < r.nen[i]; ++alt) {
      if (bound >= 0) {
        // preemptions so far if we deviate here: count deviations from choice 0 where the running thread was still enabled (conservative: every non-zero choice counts)
        int used = 0; for (size_t k = 0; k < prefix.size(); ++k) if (prefix[k] != 0) ++used;
        if (used + 1 > bound) continue;
      }
      std::vector<int> np(prefix); np.resize(i, 0); np.push_back(alt);
      explore(p, allowed, np, bound, st, max_sched);
    }
  }
}

static bool valid_program(const Program& p) {
  int cnt[NOPS] = {0};
  for (int t = 0; t < p.nt; ++t) for (int j = 0; j < p.nops[t]; ++j) cnt[p.op[t][j]]++;
  for (int d : {8, 9, 12, 13, 14, 17}) if (cnt[d] > 1) return false;  // an object is destroyed at most once (caller obligation)
  if (cnt[20] && cnt[8]) return false;                                // Q1 is queried directly: it must not be released concurrently
  if (cnt[19] && cnt[13]) return false;                               // D is queried directly: it must not be released concurrently
  if (cnt[18] && cnt[12]) return false;                               // a requirement is not placed on an object that another operation of the program destroys
  int total = 0; for (int t = 0; t < p.nt; ++t) total += p.nops[t];
  if (cnt[22] && total > 2) return false;                             // the own-mock operation has ~8 critical sections: it is explored in 2x1 programs only (combinatorics, not a caller obligation)
  return true;
}
static std::vector<Program> programs_of(const std::string& shape, const std::vector<int>& ops, long* filtered) {
  std::vector<Program> out;
  auto add = [&](Program p) { if (valid_program(p)) out.push_back(p); else ++*filtered; };
  if (shape == "2x1") {
    for (size_t a = 0; a < ops.size(); ++a) for (size_t b = a; b < ops.size(); ++b) { Program p{}; p.nt = 2; p.nops[0] = p.nops[1] = 1; p.op[0][0] = ops[a]; p.op[1][0] = ops[b]; add(p); }
  } else if (shape == "3x1") {
    for (size_t a = 0; a < ops.size(); ++a) for (size_t b = a; b < ops.size(); ++b) for (size_t c = b; c < ops.size(); ++c) { Program p{}; p.nt = 3; p.nops[0] = p.nops[1] = p.nops[2] = 1; p.op[0][0] = ops[a]; p.op[1][0] = ops[b]; p.op[2][0] = ops[c]; add(p); }
  } else if (shape == "2x3") {
    std::vector<std::array<int, 3>> tp;
    for (int a : ops) for (int b : ops) for (int c : ops) tp.push_back({{a, b, c}});
    for (size_t x = 0; x < tp.size(); ++x) for (size_t y = x; y < tp.size(); ++y) { Program p{}; p.nt = 2; p.nops[0] = p.nops[1] = 3; for (int k = 0; k < 3; ++k) { p.op[0][k] = tp[x][(size_t)k]; p.op[1][k] = tp[y][(size_t)k]; } add(p); }
  } else if (shape == "3x2") {
    std::vector<std::pair<int, int>> tp;
    for (int a : ops) for (int b : ops) tp.push_back({a, b});
    for (size_t x = 0; x < tp.size(); ++x) for (size_t y = x; y < tp.size(); ++y) for (size_t z = y; z < tp.size(); ++z) {
      Program p{}; p.nt = 3; p.nops[0] = p.nops[1] = p.nops[2] = 2;
      p.op[0][0] = tp[x].first; p.op[0][1] = tp[x].second; p.op[1][0] = tp[y].first; p.op[1][1] = tp[y].second; p.op[2][0] = tp[z].first; p.op[2][1] = tp[z].second; add(p);
    }
  } else if (shape == "2x2") {
    std::vector<std::pair<int, int>> tp;
    for (int a : ops) for (int b : ops) tp.push_back({a, b});
    for (size_t x = 0; x < tp.size(); ++x) for (size_t y = x; y < tp.size(); ++y) { Program p{}; p.nt = 2; p.nops[0] = p.nops[1] = 2; p.op[0][0] = tp[x].first; p.op[0][1] = tp[x].second; p.op[1][0] = tp[y].first; p.op[1][1] = tp[y].second; add(p); }
  }
  return out;
}
static std::string json_escape(const std::string& s) { std::string o; for (unsigned char c : s) { if (c == '"' || c == '\\') { o += '\\'; o += (char)c; } else if (c == '\n') o += "\\n"; else if (c < 0x20) o += ' '; else o += (char)c; } return o; }

static Program parse_program(const std::string& s) {  // "2:0,5|11,12"
  Program p{}; p.nt = 0; int t = 0; p.nops[0] = 0; size_t i = s.find(':'); std::string b = s.substr(i + 1); std::string cur;
  for (size_t k = 0; k <= b.size(); ++k) {
    char c = k < b.size() ? b[k] : '|';
    if (c == ',' || c == '|') { if (!cur.empty()) { p.op[t][p.nops[t]++] = atoi(cur.c_str()); cur.clear(); } if (c == '|') { ++t; if (t < MAXT) p.nops[t] = 0; } }
    else cur += c;
  }
  p.nt = t; return p;
}
static std::string program_code(const Program& p) {
  std::string s = std::to_string(p.nt) + ":";
  for (int t = 0; t < p.nt; ++t) { if (t) s += '|'; for (int j = 0; j < p.nops[t]; ++j) { if (j) s += ','; s += std::to_string(p.op[t][j]); } }
  return s;
}

int main(int argc, char** argv) {
  trompeloeil::set_reporter(reporter);
  std::string mode = "explore", shape = "2x1", opsarg, out_path, replay_prog, replay_choices;
  int slice = 0, nslices = 1, bound = -1; long max_sched = 200000; double deadline = 1e9; unsigned per_program_limit = 120;
  for (int i = 1; i < argc; ++i) {
    std::string a = argv[i]; auto nxt = [&]() { return std::string(argv[++i]); };
    if (a == "--shape") shape = nxt(); else if (a == "--ops") opsarg = nxt(); else if (a == "--slice") { std::string v = nxt(); slice = atoi(v.c_str()); nslices = atoi(v.c_str() + v.find('/') + 1); }
    else if (a == "--bound") bound = atoi(nxt().c_str()); else if (a == "--out") out_path = nxt(); else if (a == "--max-schedules") max_sched = atol(nxt().c_str());
    else if (a == "--deadline") deadline = atof(nxt().c_str());
    else if (a == "--program-limit") per_program_limit = (unsigned)atoi(nxt().c_str());
    else if (a == "--replay") { mode = "replay"; replay_prog = nxt(); replay_choices = nxt(); }
    else { fprintf(stderr, "unknown argument %s\n", a.c_str()); return 2; }
  }
  if (mode == "replay") {
    Program p = parse_program(replay_prog);
    std::vector<int> ch; { std::string cur; for (char c : replay_choices + ",") { if (c == ',') { if (!cur.empty()) ch.push_back(atoi(cur.c_str())); cur.clear(); } else cur += c; } }
    long nodes = 0; std::set<std::string> allowed = allowed_results(p, nodes);
    printf("program: %s\n", prog_str(p).c_str());
    long before = g_tsan_reports;
    ExecResult r = execute(p, ch); std::string key = result_key(p, r);
    ExecResult r2 = execute(p, ch);
    printf("lock grants (thread ids): "); for (int g : r.granted) printf("%d ", g); printf("\nresult: %s\n", key.c_str());
    printf("deterministic on second run: %s\n", result_key(p, r2) == key ? "yes" : "NO");
    printf("allowed by the model's linearizations (%zu): %s\n", allowed.size(), allowed.count(key) ? "yes" : "NO");
    if (!allowed.count(key)) for (auto& a : allowed) printf("   allowed: %s\n", a.c_str());
    printf("ThreadSanitizer reports in this run: %ld\ndeadlock: %d\n", g_tsan_reports - before, (int)r.deadlock);
    bool bad = !allowed.count(key) || g_tsan_reports != before || r.deadlock;
    printf(bad ? "RESULT: violation reproduced\n" : "RESULT: no violation\n");
    return bad ? 1 : 0;
  }
  std::vector<int> ops; { std::string cur; for (char c : opsarg + ",") { if (c == ',') { if (!cur.empty()) ops.push_back(atoi(cur.c_str())); cur.clear(); } else cur += c; } }
  if (ops.empty()) for (int i = 0; i < NOPS; ++i) ops.push_back(i);
  long filtered = 0;
  std::vector<Program> progs = programs_of(shape, ops, &filtered);
  auto t0 = std::chrono::steady_clock::now();
  std::ofstream out(out_path);
  long done = 0, skipped = 0;
  for (size_t pi = (size_t)slice; pi < progs.size(); pi += (size_t)nslices) {
    if (std::chrono::duration<double>(std::chrono::steady_clock::now() - t0).count() > deadline) { ++skipped; continue; }
    const Program& p = progs[pi];
    int pf[2]; if (pipe(pf) != 0) return 2;
    pid_t c = fork();
    if (c == 0) {
      close(pf[0]);
      // time limit per program: when it is reached the exploration stops taking new schedules and the program is recorded as
      // capped (not exhaustive, no alarm); only if even the schedule in progress does not finish within another 30 s - a hang -
      // does the second SIGALRM end the process, which the parent reports as abnormal termination
      signal(SIGALRM, [](int) { if (g_time_up) _exit(114); g_time_up = 1; alarm(30); });
      alarm(per_program_limit);
      ProgStats st; std::set<std::string> allowed = allowed_results(p, st.lin_nodes); st.allowed = allowed.size();
      if (g_time_up) st.capped = true;   // enumerating the model's interleavings alone took the whole time limit: nothing is explored, nothing is judged
      else explore(p, allowed, {}, bound, st, max_sched);
      std::string ch; for (int x : st.bad_choices) { ch += std::to_string(x); ch += ','; }
      std::string smp = st.outcomes.empty() ? "" : *st.outcomes.begin();
      char buf[8192];
      int n = snprintf(buf, sizeof buf, "P\t%s\t%ld\t%ld\t%ld\t%ld\t%zu\t%zu\t%ld\t%ld\t%ld\t%ld\t%d\t%d\t%s\t%s\t%s\t%s\t%s\n", program_code(p).c_str(), st.schedules, st.points, st.nodes, st.lin_nodes, st.outcomes.size(), st.allowed,
                       st.races, st.nonlin, st.deadlocks, st.nondet, st.max_preempt, (int)st.capped, ch.c_str(), json_escape(st.bad_what).c_str(), json_escape(st.bad_result).c_str(), json_escape(prog_str(p)).c_str(), json_escape(smp).c_str());
      if (write(pf[1], buf, (size_t)std::min(n, (int)sizeof buf - 1)) < 0) _exit(3);
      _exit(0);
    }
    close(pf[1]);
    std::string line; char tmp[4096]; ssize_t k;
    while ((k = read(pf[0], tmp, sizeof tmp)) > 0) line.append(tmp, (size_t)k);
    close(pf[0]);
    int stt; waitpid(c, &stt, 0);
    if (!(WIFEXITED(stt) && WEXITSTATUS(stt) == 0) || line.empty()) {
      out << "X\t" << program_code(p) << "\t" << (WIFSIGNALED(stt) ? 1000 + WTERMSIG(stt) : WEXITSTATUS(stt)) << "\t" << json_escape(prog_str(p)) << "\n";
    } else out << line;
    out.flush();
    ++done;
  }
  out << "S\t" << progs.size() << "\t" << filtered << "\t" << done << "\t" << skipped << "\n";
  return 0;
}
