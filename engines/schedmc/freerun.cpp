// Free-running ThreadSanitizer pass for C12, complementing the exhaustive scheduler (schedmc.cpp): the same kind of tiny
// programs, but with the library's OWN lock (no TROMPELOEIL_CUSTOM_RECURSIVE_MUTEX hook, which compiles the default
// get_lock() out) and real OS scheduling. It decides nothing about interleavings - the scheduler does that - it is the race
// oracle for the code the hook replaces: every process is a cold start, i.e. the first acquisitions of the library's lock
// happen concurrently on several threads, before the main thread has touched the library.
#include <trompeloeil.hpp>
#include <atomic>
#include <cstdio>
#include <cstdlib>
#include <thread>
#include <vector>

struct M {
  MAKE_MOCK1(f, int(int));
  MAKE_MOCK1(g, int(int));
};
struct WB { virtual ~WB() = default; };
static std::atomic<int> g_fatal{0};

int main(int argc, char** argv) {
  int nthreads = argc > 1 ? atoi(argv[1]) : 2;
  // phase 1: cold start, nothing shared but the library's globals
  {
    std::vector<std::thread> th;
    for (int t = 0; t < nthreads; ++t) th.emplace_back([t] {
      using trompeloeil::_;
      M own; trompeloeil::sequence seq;
      auto e1 = NAMED_REQUIRE_CALL(own, f(_)).IN_SEQUENCE(seq).RETURN(_1 + t);
      auto e2 = NAMED_ALLOW_CALL(own, g(_)).RETURN(0);
      if (own.f(1) != 1 + t) ++g_fatal;
      own.g(2);
      (void)seq.is_completed(); (void)e1->is_satisfied();
      auto* w = new trompeloeil::deathwatched<WB>; { auto d = NAMED_REQUIRE_DESTRUCTION(*w); delete w; (void)d->is_satisfied(); }
    });
    for (auto& x : th) x.join();
  }
  // phase 2: a shared mock, each thread calls, creates and releases
  {
    using trompeloeil::_;
    trompeloeil::set_reporter([](trompeloeil::severity s, char const*, unsigned long, std::string const&) { if (s == trompeloeil::severity::fatal) ++g_fatal; });
    M shared; auto base = NAMED_ALLOW_CALL(shared, f(_)).RETURN(7);
    std::vector<std::thread> th;
    for (int t = 0; t < nthreads; ++t) th.emplace_back([&shared, t] {
      using trompeloeil::_;
      for (int k = 0; k < 3; ++k) {
        auto e = NAMED_ALLOW_CALL(shared, g(t)).RETURN(t);
        if (shared.g(t) != t) ++g_fatal;
        if (shared.f(k) != 7) ++g_fatal;
      }
    });
    for (auto& x : th) x.join();
  }
  if (g_fatal) { fprintf(stderr, "free-running pass: %d unexpected results\n", g_fatal.load()); return 3; }
  return 0;
}
