// C20: mocked coroutines. Minimal coroutine types of the harness (eager / lazy task, void task, generator), a type-erased
// stepping interface, and the mock under test. C++20 only.
#pragma once
#include <trompeloeil.hpp>
#include "../enum/enum_common.hpp"
#include <coroutine>
#include <exception>
#include <functional>
#include <iterator>
#include <memory>
#include <optional>
#include <stdexcept>

namespace c20 {

extern en::Recorder R;
extern int g_side_effects;   // incremented by SIDE_EFFECT clauses
int throwing_value();        // a CO_RETURN expression that throws std::runtime_error("ret")

struct InitialAwait { bool ready; bool await_ready() const noexcept { return ready; } void await_suspend(std::coroutine_handle<>) const noexcept {} void await_resume() const noexcept {} };

template <typename T, bool Eager>
struct task {
  struct promise_type {
    std::optional<T> cur, ret; std::exception_ptr ex;
    task get_return_object() { return task{std::coroutine_handle<promise_type>::from_promise(*this)}; }
    InitialAwait initial_suspend() noexcept { return {Eager}; }
    std::suspend_always final_suspend() noexcept { return {}; }
    std::suspend_always yield_value(T v) { cur = std::move(v); return {}; }
    void return_value(T v) { ret = std::move(v); }
    void unhandled_exception() { ex = std::current_exception(); }
  };
  std::coroutine_handle<promise_type> h;
  explicit task(std::coroutine_handle<promise_type> h_) : h(h_) {}
  task(task&& o) noexcept : h(std::exchange(o.h, {})) {}
  ~task() { if (h) h.destroy(); }
  bool await_ready() const noexcept { return false; }
  void await_suspend(std::coroutine_handle<>) noexcept {}
  T await_resume() { if (h.promise().ex) std::rethrow_exception(h.promise().ex); return *h.promise().ret; }
};
template <bool Eager>
struct task<void, Eager> {
  struct promise_type {
    bool returned = false; std::exception_ptr ex;
    task get_return_object() { return task{std::coroutine_handle<promise_type>::from_promise(*this)}; }
    InitialAwait initial_suspend() noexcept { return {Eager}; }
    std::suspend_always final_suspend() noexcept { return {}; }
    void return_void() { returned = true; }
    void unhandled_exception() { ex = std::current_exception(); }
  };
  std::coroutine_handle<promise_type> h;
  explicit task(std::coroutine_handle<promise_type> h_) : h(h_) {}
  task(task&& o) noexcept : h(std::exchange(o.h, {})) {}
  ~task() { if (h) h.destroy(); }
  bool await_ready() const noexcept { return false; }
  void await_suspend(std::coroutine_handle<>) noexcept {}
  void await_resume() { if (h.promise().ex) std::rethrow_exception(h.promise().ex); }
};
// generator-shaped: an input range, lazily started, values pulled by iteration
template <typename T>
struct gen {
  struct promise_type {
    std::optional<T> cur; std::exception_ptr ex;
    gen get_return_object() { return gen{std::coroutine_handle<promise_type>::from_promise(*this)}; }
    std::suspend_always initial_suspend() noexcept { return {}; }
    std::suspend_always final_suspend() noexcept { return {}; }
    std::suspend_always yield_value(T v) { cur = std::move(v); return {}; }
    void return_void() {}
    void unhandled_exception() { ex = std::current_exception(); }
  };
  struct sentinel {};
  struct iterator {
    using value_type = T; using difference_type = std::ptrdiff_t;
    std::coroutine_handle<promise_type> h;
    iterator& operator++() { h.promise().cur.reset(); h.resume(); if (h.promise().ex) std::rethrow_exception(h.promise().ex); return *this; }
    void operator++(int) { ++*this; }
    const T& operator*() const { return *h.promise().cur; }
    bool operator==(sentinel) const { return h.done(); }
  };
  std::coroutine_handle<promise_type> h;
  explicit gen(std::coroutine_handle<promise_type> h_) : h(h_) {}
  gen(gen&& o) noexcept : h(std::exchange(o.h, {})) {}
  ~gen() { if (h) h.destroy(); }
  iterator begin() { h.resume(); if (h.promise().ex) std::rethrow_exception(h.promise().ex); return iterator{h}; }
  sentinel end() { return {}; }
};

// a task whose awaited result is a reference (const int&): the coroutine must deliver the very object its CO_RETURN clause names
template <bool Eager>
struct reftask {
  struct promise_type {
    const int* ret = nullptr; std::optional<int> cur; std::exception_ptr ex;
    reftask get_return_object() { return reftask{std::coroutine_handle<promise_type>::from_promise(*this)}; }
    InitialAwait initial_suspend() noexcept { return {Eager}; }
    std::suspend_always final_suspend() noexcept { return {}; }
    void return_value(const int& v) { ret = &v; }
    void unhandled_exception() { ex = std::current_exception(); }
  };
  std::coroutine_handle<promise_type> h;
  explicit reftask(std::coroutine_handle<promise_type> h_) : h(h_) {}
  reftask(reftask&& o) noexcept : h(std::exchange(o.h, {})) {}
  ~reftask() { if (h) h.destroy(); }
  bool await_ready() const noexcept { return false; }
  void await_suspend(std::coroutine_handle<>) noexcept {}
  const int& await_resume() { if (h.promise().ex) std::rethrow_exception(h.promise().ex); return *h.promise().ret; }
};

// a lazily started task type WITHOUT a nested promise_type: its promise is found only through std::coroutine_traits
template <typename T> struct ext_stream;
template <typename T> struct ext_stream_promise {
  std::optional<T> cur, ret; std::exception_ptr ex;
  ext_stream<T> get_return_object();
  std::suspend_always initial_suspend() noexcept { return {}; }
  std::suspend_always final_suspend() noexcept { return {}; }
  std::suspend_always yield_value(T v) { cur = std::move(v); return {}; }
  void return_value(T v) { ret = std::move(v); }
  void unhandled_exception() { ex = std::current_exception(); }
};
template <typename T> struct ext_stream {
  std::coroutine_handle<ext_stream_promise<T>> h;
  explicit ext_stream(std::coroutine_handle<ext_stream_promise<T>> h_) : h(h_) {}
  ext_stream(ext_stream&& o) noexcept : h(std::exchange(o.h, {})) {}
  ~ext_stream() { if (h) h.destroy(); }
  bool await_ready() const noexcept { return false; }
  void await_suspend(std::coroutine_handle<>) noexcept {}
  T await_resume() { if (h.promise().ex) std::rethrow_exception(h.promise().ex); return *h.promise().ret; }
};
template <typename T> ext_stream<T> ext_stream_promise<T>::get_return_object() { return ext_stream<T>{std::coroutine_handle<ext_stream_promise<T>>::from_promise(*this)}; }
}  // namespace c20
template <typename T, typename... A> struct std::coroutine_traits<c20::ext_stream<T>, A...> { using promise_type = c20::ext_stream_promise<T>; };
namespace c20 {

extern int g_live;  // a variable LR_CO_YIELD clauses refer to: modified after the expectation was created
extern const int g_named;  // the object LR_CO_RETURN(g_named) of a reference-returning coroutine names

struct M {
  MAKE_MOCK0(xs, (ext_stream<int>()));
  MAKE_MOCK0(te, (task<int, true>()));
  MAKE_MOCK0(tl, (task<int, false>()));
  MAKE_MOCK0(ve, (task<void, true>()));
  MAKE_MOCK0(vl, (task<void, false>()));
  MAKE_MOCK0(g, (gen<int>()));
  MAKE_MOCK0(re, (reftask<true>()));
  MAKE_MOCK0(rl, (reftask<false>()));
};

// ---- type-erased stepping: every step produces one event; the events of one coroutine are its observable behaviour ----
// events: "Y<v>" a yielded value; "R<v>" returned value; "Rvoid" plain completion; "X<what>" exception raised at the await / iteration
struct ICoro { virtual ~ICoro() = default; virtual bool finished() const = 0; virtual std::string step() = 0; virtual std::string at_call() = 0; };

template <typename T, bool Eager>
struct TaskCoro : ICoro {
  task<T, Eager> t; bool fin = false; bool first = true;
  explicit TaskCoro(task<T, Eager>&& t_) : t(std::move(t_)) {}
  bool finished() const override { return fin; }
  std::string observe() {
    auto& p = t.h.promise();
    if (!t.h.done()) {
      if constexpr (!std::is_void_v<T>) { if (p.cur) return "Y" + std::to_string(*p.cur); }
      return "?suspended-without-yield";
    }
    fin = true;
    try {
      if constexpr (std::is_void_v<T>) { t.await_resume(); return "Rvoid"; } else { return "R" + std::to_string(t.await_resume()); }
    } catch (std::exception& e) { return std::string("X") + e.what(); } catch (...) { return "Xunknown"; }
  }
  // an eagerly started coroutine has already run to its first suspension point inside the call
  std::string at_call() override { if (Eager) { first = false; return observe(); } return ""; }
  std::string step() override {
    if (Eager || !first) { if constexpr (!std::is_void_v<T>) t.h.promise().cur.reset(); }
    first = false;
    t.h.resume();
    return observe();
  }
};
template <bool Eager>
struct RefCoro : ICoro {
  reftask<Eager> t; bool fin = false;
  explicit RefCoro(reftask<Eager>&& t_) : t(std::move(t_)) {}
  bool finished() const override { return fin; }
  std::string observe() {
    if (!t.h.done()) return "?suspended-without-yield";
    fin = true;
    // identity, not value: a copy made on the way (a dead temporary by now) is a different object
    try { const int& r = t.await_resume(); return &r == &g_named ? "Rref:the-named-object" : "Rref:some-other-object"; } catch (std::exception& e) { return std::string("X") + e.what(); } catch (...) { return "Xunknown"; }
  }
  std::string at_call() override { return Eager ? observe() : std::string(); }
  std::string step() override { t.h.resume(); return observe(); }
};
struct ExtCoro : ICoro {
  ext_stream<int> t; bool fin = false;
  explicit ExtCoro(ext_stream<int>&& t_) : t(std::move(t_)) {}
  bool finished() const override { return fin; }
  std::string at_call() override { return ""; }
  std::string step() override {
    t.h.promise().cur.reset(); t.h.resume();
    auto& p = t.h.promise();
    if (!t.h.done()) return p.cur ? "Y" + std::to_string(*p.cur) : std::string("?suspended-without-yield");
    fin = true;
    try { return "R" + std::to_string(t.await_resume()); } catch (std::exception& e) { return std::string("X") + e.what(); } catch (...) { return "Xunknown"; }
  }
};
struct GenCoro : ICoro {
  gen<int> g; std::optional<gen<int>::iterator> it; bool fin = false;
  explicit GenCoro(gen<int>&& g_) : g(std::move(g_)) {}
  bool finished() const override { return fin; }
  std::string at_call() override { return ""; }
  std::string step() override {
    try {
      if (!it) it = g.begin(); else ++*it;
    } catch (std::exception& e) { fin = true; return std::string("X") + e.what(); } catch (...) { fin = true; return "Xunknown"; }
    if (*it == gen<int>::sentinel{}) { fin = true; return "Rvoid"; }
    return "Y" + std::to_string(**it);
  }
};

using E = std::unique_ptr<trompeloeil::expectation>;
struct ShapeDesc {
  const char* text;                 // the expectation statement
  const char* fn;                   // te / tl / ve / vl / g
  int nyield;                       // CO_YIELD clauses (values 10, 11, ...)
  const char* terminal;             // expected final event
  int times;                        // TIMES(n)
  int live;                         // > 0: the yields are LR_CO_YIELD(g_live + i); g_live is set to this value AFTER the expectation was created
  E (*make)(M&);
  std::unique_ptr<ICoro> (*call)(M&);
};
extern const ShapeDesc g_shapes[];
extern const int g_nshapes;

}  // namespace c20
