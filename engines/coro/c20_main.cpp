// C20: every clause list x coroutine type x number of calls x every interleaving of call / resume / destroy steps of
// the resulting coroutines, against the expected per-coroutine event sequence.
#include "c20_coro.hpp"

namespace c20 {
en::Recorder R;
int g_side_effects = 0;
int g_live = 0;
const int g_named = 77;
int throwing_value() { throw std::runtime_error("ret"); }
}
using namespace c20;

struct Fatal {};
static std::vector<std::string> g_reports;

static std::vector<std::string> expected_events(const ShapeDesc& s) {
  std::vector<std::string> v;
  for (int i = 0; i < s.nyield; ++i) v.push_back("Y" + std::to_string(10 + i));  // also for LR_CO_YIELD(g_live + i) with g_live == 10 at the time of the yields
  v.push_back(s.terminal);
  return v;
}

struct Run {
  const ShapeDesc& s; int ncalls; bool allow_destroy; bool allow_mock_death = false; bool mock_dead = false;
  std::vector<int> ops;  // >= 0: step coroutine i; -1: call; -2-i: destroy coroutine i
  long runs = 0;
};

// executes one complete operation sequence on a fresh mock; returns a description of the first deviation or ""
static std::string execute(const ShapeDesc& s, const std::vector<int>& ops, std::string* trace) {
  g_side_effects = 0; g_reports.clear();
  std::unique_ptr<M> mp(new M); M& m = *mp;
  g_live = -1000;             // value at creation time: must not be what LR_CO_YIELD yields
  E e = s.make(m);
  if (s.live) g_live = s.live < 0 ? -s.live : s.live;
  const bool moving = s.live < 0;   // the variable the LR_ clauses name changes after every step of any coroutine: each value is read when it is produced
  std::vector<std::unique_ptr<ICoro>> co; std::vector<std::vector<std::string>> ev, dyn; std::vector<bool> destroyed; bool mock_dead = false;
  auto expect_now = [&](size_t c) { size_t k = ev[c].size(); dyn[c].push_back(k < (size_t)s.nyield ? "Y" + std::to_string(g_live + (int)k) : std::string(s.terminal)); };
  std::vector<std::string> want = expected_events(s);
  std::string bad;
  for (int op : ops) {
    if (op == -1) {
      int before = g_side_effects;
      try { co.push_back(s.call(m)); } catch (Fatal&) { bad = "call rejected: " + (g_reports.empty() ? std::string("?") : g_reports.back()); break; }
      catch (std::exception& x) { bad = std::string("the call itself threw: ") + x.what(); break; }
      ev.emplace_back(); dyn.emplace_back(); destroyed.push_back(false);
      if (g_side_effects != before + 1 && bad.empty()) bad = "SIDE_EFFECT did not run exactly once at call time";
      std::string a = co.back()->at_call(); if (!a.empty()) { expect_now(ev.size() - 1); ev.back().push_back(a); if (moving) ++g_live; }
      if (trace) *trace += "call->c" + std::to_string(co.size() - 1) + (a.empty() ? "" : "[" + a + "]") + " ";
    } else if (op == -100) {
      // the mock object dies while its coroutines are suspended; the NAMED expectation stays alive, so they must still run to their end
      g_reports.clear(); mp.reset();
      if (!g_reports.empty() && !(g_reports.size() == 1 && g_reports[0].rfind("Pending expectation on destroyed mock object", 0) == 0) && bad.empty()) bad = "unexpected report at mock destruction: " + g_reports[0];
      mock_dead = true; g_reports.clear();
      if (trace) *trace += "destroy-mock ";
    } else if (op >= 0) {
      int before = g_side_effects;
      expect_now((size_t)op);
      std::string r = co[(size_t)op]->step(); ev[(size_t)op].push_back(r);
      if (moving) ++g_live;
      if (g_side_effects != before && bad.empty()) bad = "SIDE_EFFECT ran during a resume";
      if (trace) *trace += "c" + std::to_string(op) + ":" + r + " ";
    } else {
      size_t i = (size_t)(-2 - op); co[i].reset(); destroyed[i] = true;
      if (trace) *trace += "destroy c" + std::to_string(i) + " ";
    }
  }
  if (bad.empty()) for (size_t i = 0; i < ev.size(); ++i) {
    std::vector<std::string> w = moving ? dyn[i] : want; if (destroyed[i]) w.resize(std::min(w.size(), ev[i].size()));
    if (ev[i] != w) { bad = "coroutine " + std::to_string(i) + " produced ["; for (auto& x : ev[i]) bad += x + " "; bad += "] expected ["; for (auto& x : w) bad += x + " "; bad += "]"; break; }
  }
  if (bad.empty() && !g_reports.empty()) bad = "unexpected report: " + g_reports[0];
  co.clear();
  // the expectation needed 3 calls: fewer calls give exactly one 'Unfulfilled' report at release, 3 calls none
  size_t calls = ev.size(); g_reports.clear();
  e.reset();
  if (bad.empty() && mock_dead) { if (!g_reports.empty()) bad = "release after the mock died reported again: " + g_reports[0]; }
  else if (bad.empty()) {
    if (calls < 3 && (g_reports.size() != 1 || g_reports[0].rfind("Unfulfilled expectation", 0) != 0)) bad = "release after " + std::to_string(calls) + " of 3 calls did not give exactly one unfulfilled report";
    if (calls == 3 && !g_reports.empty()) bad = "release after 3 of 3 calls reported: " + g_reports[0];
  }
  return bad;
}

static void enumerate(Run& r, std::vector<int>& created_fin, int created, int destroyed_one, std::vector<int>& steps_left) {
  // created_fin[i]: 0 not finished, 1 finished/destroyed
  bool any = false;
  if (created < r.ncalls) {
    any = true; r.ops.push_back(-1);
    // an eager coroutine performs its first step inside the call
    bool eager = r.s.fn[1] == 'e';
    steps_left.push_back(r.s.nyield + 1 - (eager ? 1 : 0)); created_fin.push_back(steps_left.back() == 0);
    enumerate(r, created_fin, created + 1, destroyed_one, steps_left);
    steps_left.pop_back(); created_fin.pop_back(); r.ops.pop_back();
  }
  for (int i = 0; i < created; ++i) if (!created_fin[(size_t)i]) {
    any = true; r.ops.push_back(i); steps_left[(size_t)i]--; if (steps_left[(size_t)i] == 0) created_fin[(size_t)i] = 1;
    enumerate(r, created_fin, created, destroyed_one, steps_left);
    created_fin[(size_t)i] = 0; steps_left[(size_t)i]++; r.ops.pop_back();
    if (r.allow_destroy && !destroyed_one) {
      r.ops.push_back(-2 - i); int keep = steps_left[(size_t)i]; steps_left[(size_t)i] = 0; created_fin[(size_t)i] = 1;
      enumerate(r, created_fin, created, 1, steps_left);
      created_fin[(size_t)i] = 0; steps_left[(size_t)i] = keep; r.ops.pop_back();
    }
  }
  if (!any && r.allow_mock_death && !r.mock_dead && created == r.ncalls) {
    // variant: the mock dies right after the last call, before anything else is resumed... handled below by insertion at every point
  }
  if (r.allow_mock_death && !r.mock_dead && created == r.ncalls && created > 0) {
    bool unfinished = false; for (int i = 0; i < created; ++i) if (!created_fin[(size_t)i]) unfinished = true;
    if (unfinished) { r.ops.push_back(-100); r.mock_dead = true; enumerate(r, created_fin, created, destroyed_one, steps_left); r.mock_dead = false; r.ops.pop_back(); }
  }
  if (!any) {
    ++r.runs;
    std::string trace;
    std::string bad = execute(r.s, r.ops, R.filter.empty() ? nullptr : &trace);
    std::string id; for (int op : r.ops) id += (op == -1 ? std::string("call") : op == -100 ? std::string("destroy-mock") : op >= 0 ? "c" + std::to_string(op) : "destroy" + std::to_string(-2 - op)) + " ";
    R.check(r.s.text, std::to_string(r.ncalls) + " calls, order: " + id, bad.empty() ? std::string("as specified") : bad, std::string("as specified"), r.s.fn);
    if (!R.filter.empty() && R.wanted(std::string(r.s.text) + " <- " + std::to_string(r.ncalls) + " calls, order: " + id)) printf("   trace: %s\n", trace.c_str());
  }
}

// call-time semantics exactly as for ordinary functions: saturation, sequence order, forbidden, matching
struct MS {
  MAKE_MOCK1(t, (task<int, true>(int)));  // eager: the argument tuple does not outlive the call, a lazily started coroutine must not touch it
};
static void call_time_checks() {
  using trompeloeil::_;
  auto chk = [](const char* what, const std::string& got, const std::string& exp) { R.check(std::string("call-time: ") + what, "-", got, exp, "calltime"); };
  { M m; g_reports.clear(); auto e = NAMED_REQUIRE_CALL(m, tl()).TIMES(2).CO_RETURN(1); auto a = m.tl(); auto b = m.tl(); std::string r = "accepted";
    try { auto c = m.tl(); } catch (Fatal&) { r = g_reports.back().substr(0, 8); }
    chk("third call of a TIMES(2) coroutine expectation is a fatal no-match at the call", r, "No match"); chk("saturated after two calls, before any coroutine was resumed", std::to_string(e->is_saturated()), "1"); }
  { M m; g_reports.clear(); trompeloeil::sequence s; auto a = NAMED_REQUIRE_CALL(m, tl()).IN_SEQUENCE(s).CO_RETURN(1); auto b = NAMED_REQUIRE_CALL(m, te()).IN_SEQUENCE(s).CO_YIELD(5).CO_RETURN(2); std::string r = "accepted";
    try { auto c = m.te(); } catch (Fatal&) { r = g_reports.back().substr(0, 17); }
    chk("out-of-sequence coroutine call is rejected at the call", r, "Sequence mismatch"); auto c1 = m.tl(); auto c2 = m.te(); chk("in-sequence calls accepted; sequence completed without resuming anything", std::to_string(s.is_completed()), "1"); }
  { M m; g_reports.clear(); auto f = NAMED_FORBID_CALL(m, tl()); std::string r = "accepted"; try { auto c = m.tl(); } catch (Fatal&) { r = g_reports.back().substr(0, 23); } chk("FORBID_CALL on a coroutine function", r, "Match of forbidden call"); }
  { MS m; g_reports.clear(); auto e1 = NAMED_ALLOW_CALL(m, t(_)).CO_RETURN(100); auto e2 = NAMED_REQUIRE_CALL(m, t(trompeloeil::gt(5))).CO_RETURN(200);
    auto a = m.t(9); auto b = m.t(1);
    chk("newest matching expectation handles the call, selected by the argument at call time", std::to_string(a.await_resume()) + "," + std::to_string(b.await_resume()), "200,100"); }
}

int main(int argc, char** argv) {
  R.prop = "C20"; R.args(argc, argv);
  trompeloeil::set_reporter([](trompeloeil::severity s, char const*, unsigned long, std::string const& m) { g_reports.push_back(m); if (s == trompeloeil::severity::fatal) throw Fatal{}; });
  long runs = 0;
  for (int k = 0; k < g_nshapes; ++k) {
    const ShapeDesc& s = g_shapes[k];
    for (int n = 1; n <= 3; ++n) {
      int maxy = n == 3 ? (R.thorough() ? 2 : 1) : (n == 2 ? (R.thorough() ? 4 : 2) : 4);
      if (s.nyield > maxy) continue;
      bool destroy = R.thorough() ? (n <= 2 || s.nyield <= 1) : (n == 2 && s.nyield <= 1);
      Run r{s, n, destroy, n <= 2 && s.nyield >= 1 && s.nyield <= (R.thorough() ? 3 : 2), false, {}, 0};
      std::vector<int> fin, left; enumerate(r, fin, 0, 0, left); runs += r.runs;
    }
  }
  call_time_checks();
  R.notes.push_back("expectation shapes: " + std::to_string(g_nshapes) + "; complete operation sequences executed: " + std::to_string(runs));
  return R.finish("every expectation shape (0..4 CO_YIELD clauses x terminal {CO_RETURN value, CO_RETURN of a throwing expression, CO_THROW, void CO_RETURN} x clause order x coroutine type {eager/lazy task<int>, eager/lazy task<void>, generator}) x 1..3 calls x every interleaving of call / resume (/ destroy) steps of the resulting coroutines; per coroutine the event sequence must be yields in declaration order then the terminal event, whatever the interleaving; side effects at call time; release reports",
                  "[\"the harness's own minimal coroutine types (engines/coro/c20_coro.hpp)\", \"parameterless mock functions: the statement does not promise parameter lifetime for lazily started coroutines\", \"g++ 12 -std=c++20, ASan+UBSan\"]");
}
