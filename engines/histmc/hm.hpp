// Engine E1 "histmc": shared vocabulary of the history explorer.
// Operations, expectation shapes, the outcome (observation) structure that the
// reference model predicts and that the implementation world measures.
#pragma once
#include <cstdint>
#include <cstring>
#include <string>
#include <vector>
#include <memory>

namespace hm {

#ifndef HM_NSLOT
#define HM_NSLOT 4
#endif
constexpr int NSLOT = HM_NSLOT;  // expectation / monitor slots
#ifndef HM_NSEQ
#define HM_NSEQ 2
#endif
constexpr int NSEQ = HM_NSEQ;   // sequence objects
constexpr int NOBJ = 4;   // mock objects: 0,1 non-movable M; 2,3 movable MV
constexpr int NWAT = 3;   // deathwatched objects
constexpr int NTRC = 3;   // tracer nesting depth
constexpr int INF = 255;  // upper bound "unbounded"

enum Fn : int8_t { F1 = 0, G1 = 1, F2 = 2, V1 = 3, R1 = 4, CR1 = 5, SV1 = 6, CF1 = 7, Z0 = 8, NFN = 9 };  // CF1: the const overload of f(int); Z0: int z() - no parameters
enum MK : int8_t { MK_ANY = 0, MK_EQ, MK_LT, MK_VAL, MK_NE, MK_GE, MK_ANYM /* written ANY(int): a macro inside the expectation text */ };
enum TimesForm : int8_t { TF_RT = 0, TF_DEFAULT, TF_N, TF_LH, TF_ATLEAST, TF_ATMOST, TF_ALLOW, TF_FORBID, TF_RT1 /* RT_TIMES(n): exactly n */ };
enum Act : int8_t { ACT_RET = 0, ACT_THROW_INT, ACT_THROW_STD, ACT_NONE, ACT_RETREF, ACT_RETCAP /* RETURN(local captured by copy) from a function returning const int& */, ACT_RETSTR /* std::string returned by value */ };
enum MockKind : int8_t { MOCK_M = 0, MOCK_MV = 1, MOCK_WATCHED = 2 };

// compile-time shape of an expectation statement (one template instantiation)
struct Shape {
  int8_t mock, fn, mk1, mk2, nwith, nse, seqar, tform, tl, th, act;
  const char* clauses;  // clause order, e.g. "WQTSA"
};

enum OpKind : uint8_t {
  OP_CREATE = 0,   // slot shape obj k1 k2 lo hi s1 s2 wmode semode actmode
  OP_RELEASE,      // slot
  OP_CALL,         // obj fn a1 a2
  OP_DESTROY_MOCK, // obj
  OP_MOVE_MOCK,    // obj(src) -> k1(dst)  (movable mocks only)
  OP_DESTROY_SEQ,  // s1
  OP_MOVE_SEQ,     // s1: the sequence object is move-constructed into a new one
  OP_NEW_WATCHED,  // obj
  OP_DELETE_WATCHED,
  OP_COPY_WATCHED,     // obj(src) -> k1(dst): copy construction
  OP_MOVECONS_WATCHED, // obj(src) -> k1(dst): move construction
  OP_ASSIGN_WATCHED,   // obj(target) = k1(source)
  OP_MOVEASSIGN_WATCHED,
  OP_MONITOR,      // slot shape obj(watched) s1 s2
  OP_PUSH_TRACER,  // k1 = tracer kind (0 recording, 1 stream_tracer)
  OP_POP_TRACER,
  OP_SET_REPORTER, // k1 = generation to install; k2: 1 = pair form, 0 = single-argument form
  OP_ASSIGN_SEQ,   // s1: a fresh sequence object (k1 = 0) or the live sequence object s2 (k1 = 1: it stays alive, moved-from; k1 = 2: it is destroyed right afterwards) is move-assigned over the live one (the old one's pending expectations are reported as at destruction)
  OP_ARM_OK,       // the OK reporter is user code: on the next OK report it installs reporter generation k1 (pair form) from inside the callback
  OP_ARM_REPORTER, // the reporter is user code: on the next non-fatal report it destroys mock object obj (a "tear the fixture down on the first violation" policy)
  OP_NKINDS
};

struct Op {
  uint8_t kind;
  int8_t slot;
  int16_t shape;
  int8_t obj, fn, a1, a2, k1, k2;
  uint8_t lo, hi;
  int8_t s1, s2;
  uint8_t wmode[3], semode[3], actmode;
};

// outcome kinds of one step
enum OKind : uint8_t {
  OK_DONE = 0,      // non-call operation completed
  OK_ACCEPT,        // call returned normally
  OK_THROWN,        // call accepted, ended with the expectation's exception (THROW / throwing clause)
  OK_NOMATCH, OK_FORBIDDEN, OK_SEQMIS,  // call rejected with a fatal report of that kind
  OK_LOGIC_ERROR,   // RT_TIMES(lo>hi)
  OK_NESTED_FATAL,  // accepted, but a recursive call made by a side effect was rejected
  OK_OTHER
};

enum RKind : uint8_t {
  R_NOMATCH = 0, R_FORBIDDEN, R_SEQMIS, R_UNFULFILLED, R_PENDING_DESTROYED, R_SEQ_TEARDOWN,
  R_STILL_ALIVE, R_UNEXPECTED_DESTRUCTION, R_OTHER
};

struct Report {
  bool fatal = false;
  uint8_t kind = R_OTHER;
  int slot = -1;        // culprit (expectation the location/text identifies), -1 = none
  int gen = 0;          // reporter generation that received it
  bool optional = false; // model only: statement allows 0 or 1 of this report
  std::string detail;   // canonical details (counts, arguments, listings)
  std::string raw;      // implementation only
};

struct Outcome {
  uint8_t kind = OK_DONE;
  int handler = -1;
  std::string retv;
  std::vector<Report> reps;
  std::vector<std::string> oks;
  std::vector<std::string> traces;
  std::vector<std::string> clog;
  std::string qexp, qseq;
  std::string misc;  // op specific (e.g. previous reporter generation)
  std::string harness_error;  // implementation side: observation the harness could not interpret
};

// field groups for comparison masks
enum Field : unsigned {
  F_KIND = 1u << 0, F_HANDLER = 1u << 1, F_REPCOUNT = 1u << 2, F_REPCULPRIT = 1u << 3,
  F_REPDETAIL = 1u << 4, F_OKREP = 1u << 5, F_TRACE = 1u << 6, F_CLOG = 1u << 7, F_QEXP = 1u << 8,
  F_QSEQ = 1u << 9, F_MISC = 1u << 10,
  F_STATE = F_KIND | F_HANDLER | F_QEXP | F_QSEQ,  // fields whose deviation means the model state is no longer the implementation's
  F_ALL = (1u << 11) - 1
};

// ---- model state (trivially copyable) ----
struct MExp {
  uint8_t alive, is_monitor, obj, fn;
  int16_t shape;
  int8_t k1, k2;
  uint8_t lo, hi, count;
  uint8_t hooked, reported, soft_named, saturated, died;
  int8_t seqs[2];
  uint8_t nseq;
  uint8_t orphan;      // bit q: sequence q died while this expectation was registered in it
  uint8_t wmode[3], semode[3], actmode;
  uint16_t birth, satstamp;
};
struct MSeq { uint8_t alive, n; int8_t pend[NSLOT]; };
struct MState {
  MExp e[NSLOT];
  MSeq s[NSEQ];
  uint8_t obj_alive[NOBJ];
  uint8_t wat_alive[NWAT];
  uint8_t ntracer;
  uint8_t tracer_kind[NTRC];
  uint8_t repgen, okgen;
  uint8_t armed_ok; // 0 = none, 1 + generation the OK reporter installs on the next OK report
  uint8_t armed;   // 0 = none, 1 + obj: mock object the reporter destroys on the next non-fatal report
  uint16_t clock;
};

struct Site { const char* file; unsigned long line; const char* text; };

// tables provided by the generated translation units
extern const Shape g_shapes[];
extern const int g_nshapes;
const Site& site_of(int shape, int slot);
bool site_exists(int shape, int slot);

std::string op_str(const Op& op);
std::string outcome_str(const Outcome& o);

}  // namespace hm
