// Implementation side of engine E1: a world of real trompeloeil objects held in heap
// slots, driven one operation at a time, with every observable recorded.
// Only the public interface of the library is used (no access to private members).
#pragma once
#include <trompeloeil.hpp>
#include "hm.hpp"
#include <sstream>
#include <stdexcept>

namespace hm {

struct Fatal {};                       // thrown by the harness reporter on severity::fatal
struct HThrow { int slot; };           // value thrown by THROW shapes (not derived from std::exception)
struct SEThrow { int slot, idx; };     // thrown by a side effect in mode 1
struct RetThrow { int slot; };         // thrown by a RETURN expression in actmode 1

struct M {
  MAKE_MOCK1(f, int(int));
  MAKE_MOCK2(f, int(int, int));
  MAKE_MOCK1(g, int(int));
  MAKE_MOCK1(v, void(int));
  MAKE_MOCK1(r, int&(int));
  MAKE_MOCK1(cr, const int&(int));
  MAKE_MOCK1(sv, std::string(int));
  MAKE_CONST_MOCK1(f, int(int));
  MAKE_MOCK0(z, int());
};
struct MV {
  static constexpr bool trompeloeil_movable_mock = true;
  MAKE_MOCK1(f, int(int));
  MAKE_MOCK2(f, int(int, int));
  MAKE_MOCK1(g, int(int));
  MAKE_MOCK1(v, void(int));
  MAKE_MOCK1(r, int&(int));
  MAKE_MOCK1(cr, const int&(int));
  MAKE_MOCK1(sv, std::string(int));
  MAKE_CONST_MOCK1(f, int(int));
  MAKE_MOCK0(z, int());
};
struct MW {
  MW() = default;
  MW(const MW&) = default;
  MW(MW&&) = default;
  MW& operator=(const MW&) = default;
  MW& operator=(MW&&) = default;
  virtual ~MW() = default;
  int payload = 0;
};
using WObj = trompeloeil::deathwatched<MW>;
using E = std::unique_ptr<trompeloeil::expectation>;

struct RawReport { bool fatal; std::string file; unsigned long line; std::string msg; int gen; int depth; };
struct RawTrace { int tracer; std::string file; unsigned long line; std::string msg; };

struct World;
struct RecTracer : trompeloeil::tracer {
  World* w; int idx; bool reenter;
  RecTracer(World* w_, int i, bool re = false) : w(w_), idx(i), reenter(re) {}
  void trace(char const* file, unsigned long line, std::string const& call) override;
};
struct StreamTracerBox {
  World* w; int idx; std::ostringstream os; std::unique_ptr<trompeloeil::stream_tracer> t;
  StreamTracerBox(World* w_, int i) : w(w_), idx(i), t(new trompeloeil::stream_tracer(os)) {}
};

struct World {
  std::unique_ptr<M> m[2];
  std::unique_ptr<MV> mv[2];
  std::unique_ptr<trompeloeil::sequence> seq[NSEQ];
  std::vector<std::unique_ptr<trompeloeil::sequence>> parked_seq;  // moved-from sequence objects, kept alive
  std::unique_ptr<WObj> w[NWAT];
  E e[NSLOT];
  Op eop[NSLOT];           // the operation that created the occupant of each slot
  bool eused[NSLOT] = {false, false, false, false};
  int cell[NSLOT] = {0, 0, 0, 0};
  // tracer stack: exactly one of rec / box is set per level
  std::unique_ptr<RecTracer> rec[NTRC];
  std::unique_ptr<StreamTracerBox> box[NTRC];
  int ntracer = 0;

  // recording
  std::vector<RawReport> raw;
  std::vector<std::string> oks, clog;
  std::vector<RawTrace> traces;
  struct WithEv { int slot, idx; bool res; };
  std::vector<WithEv> withlog;
  std::string with_misuse;
  int depth = 0;       // nesting depth of mock calls made by the harness (0 = top level)
  long delivered[8] = {0, 0, 0, 0, 0, 0, 0, 0};  // per reporter generation: invocations since its installation
  int callobj = 0;     // object of the call in progress
  int callfn = 0;      // function of the outermost call in progress
  int calla1 = 0, calla2 = 0;
  bool in_reentry = false;
  int throw_depth = 0; // nesting depth at which the exception in flight was thrown
  int armed_ok = 0;    // 1 + reporter generation the OK callback installs, 0 = none
  void fire_armed_ok();
  std::string hstr(int slot) { clog.push_back("R" + std::to_string(slot)); return "str" + std::to_string(slot); }
  int armed = 0;       // 1 + mock object the reporter destroys on the next non-fatal report, 0 = none
  void fire_armed() { if (!armed) return; int obj = armed - 1; armed = 0; if (obj < 2) m[obj].reset(); else mv[obj - 2].reset(); }

  World();
  ~World();
  World(const World&) = delete;

  M& M_(int obj) { return *m[obj]; }
  MV& MV_(int obj) { return *mv[obj - 2]; }

  // ---- hooks evaluated inside expectation clauses ----
  bool hw(int slot, int idx, int a) {
    int mode = eop[slot].wmode[idx];
    bool r = mode == 0 ? true : mode == 1 ? false : mode == 2 ? a != 2 : a >= 1;
    withlog.push_back({slot, idx, r});
    {  // a WITH clause is consulted only for a call whose arguments the positional matchers accept (_1 is what the clause is given)
      const Shape& sh = g_shapes[eop[slot].shape]; int k = eop[slot].k1; bool m1 = true;
      switch (sh.mk1) { case MK_EQ: case MK_VAL: m1 = a == k; break; case MK_LT: m1 = a < k; break; case MK_NE: m1 = a != k; break; case MK_GE: m1 = a >= k; break; default: break; }
      if (sh.fn != Z0 && !m1 && with_misuse.empty()) with_misuse = "WITH clause " + std::to_string(idx) + " of slot " + std::to_string(slot) + " was consulted although the parameter matcher rejects the argument";
    }
    return r;
  }
  void hs(int slot, int idx, int a);
  int hr(int slot) {
    clog.push_back("R" + std::to_string(slot));
    if (eop[slot].actmode == 1) { throw_depth = depth; throw RetThrow{slot}; }
    return 100 + slot;
  }
  int& hrr(int slot) { clog.push_back("R" + std::to_string(slot)); return cell[slot]; }
  HThrow ht(int slot) { throw_depth = depth; clog.push_back("R" + std::to_string(slot)); return HThrow{slot}; }
  std::runtime_error hte(int slot) { throw_depth = depth; clog.push_back("R" + std::to_string(slot)); return std::runtime_error("t" + std::to_string(slot)); }

  // raw call dispatch; returns textual result for value returns
  std::string call_fn(int obj, int fn, int a1, int a2);

  Outcome apply(const Op& op);
  void install_reporter(int gen, bool pair, std::string* prev_desc);
  void observe(Outcome& o);
  void reset_logs() { raw.clear(); oks.clear(); clog.clear(); traces.clear(); withlog.clear(); with_misuse.clear(); }
  std::string check_with_passes() const;  // C08: every WITH evaluation pass is a declaration-order prefix ending at the first false
};

trompeloeil::reporter_func make_reporter_fwd(int gen);
trompeloeil::ok_reporter_func make_ok_reporter_fwd(int gen);
World* cur();  // the world being driven (LR_ clauses must not capture locals of the creation site)
typedef E (*SiteFn)(World*, const Op&);
SiteFn site_fn(int shape, int slot);

// report parsing
Report parse_report(const World& w, const RawReport& r);
std::string parse_trace(const World& w, const RawTrace& t);

}  // namespace hm
