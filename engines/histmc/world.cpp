#include "world.hpp"
#include <thread>
#include <algorithm>
#include <cstdio>
#include <cstdlib>

namespace hm {

static World* g_world = nullptr;
static bool g_default_reporter_empty = false;   // the first set_reporter of the process returns the library's defaults: callable objects

World* cur() { return g_world; }
void World::fire_armed_ok() {
  if (!armed_ok) return;
  if (armed_ok == 10) {   // re-enters the library: the call being reported is made once more from inside the OK callback
    armed_ok = 0; ++depth; int outer_fn = callfn;
    try { call_fn(callobj, callfn, calla1, calla2); } catch (...) { --depth; callfn = outer_fn; throw; }
    --depth; callfn = outer_fn;
    return;
  }
  int g = armed_ok - 1; armed_ok = 0; trompeloeil::set_reporter(make_reporter_fwd(g), make_ok_reporter_fwd(g));
}

void RecTracer::trace(char const* file, unsigned long line, std::string const& call) {
  w->traces.push_back({idx, file ? file : "", line, call});
  if (reenter && !w->in_reentry && w->m[0]) {
    // a tracer that uses a mock itself (e.g. forwards what it sees to a mocked sink): obj0.g(1), traced like any other call
    w->in_reentry = true; ++w->depth; int outer_fn = w->callfn; w->callfn = G1;
    try { w->call_fn(0, G1, 1, 0); } catch (...) {}
    w->callfn = outer_fn; --w->depth; w->in_reentry = false;
  }
}

static trompeloeil::reporter_func make_reporter(int gen);
static trompeloeil::ok_reporter_func make_ok_reporter(int gen);
trompeloeil::reporter_func make_reporter_fwd(int gen) { return make_reporter(gen); }
trompeloeil::ok_reporter_func make_ok_reporter_fwd(int gen) { return make_ok_reporter(gen); }
// the violation reporter is a function object with state of its own (how often it was invoked): the object handed back by a
// later set_reporter must be the installed one, state included - not a copy made at installation or per report
struct RepFn {
  int gen; long count;
  void operator()(trompeloeil::severity s, char const* file, unsigned long line, std::string const& msg);
};
static trompeloeil::reporter_func make_reporter(int gen) {
  if (g_world) g_world->delivered[gen] = 0;
  return RepFn{gen, 0};
}
void RepFn::operator()(trompeloeil::severity s, char const* file, unsigned long line, std::string const& msg) {
  {
    bool fatal = s == trompeloeil::severity::fatal;
    bool probe = std::string(file ? file : "") == "probe";   // the harness identifying a returned callable: not a report
    if (!probe) { ++count; if (g_world) ++g_world->delivered[gen]; }
    if (g_world) g_world->raw.push_back({fatal, file ? file : "", line, msg, gen, g_world->depth});
    // the armed reporter (user code) stands down when a sequence violation is reported: the end-of-life report of an expectation
    // named in one is the single place where the statements leave the answer open, and the harness does not build on an open answer
    if (fatal && g_world && msg.rfind("Sequence mismatch", 0) == 0) g_world->armed = 0;
    if (fatal) throw Fatal{};
    if (g_world && std::string(file ? file : "") != "probe") g_world->fire_armed();  // user code in the reporter (OP_ARM_REPORTER)
  }
}
static trompeloeil::ok_reporter_func make_ok_reporter(int gen) {
  return [gen](char const* msg) {
    if (g_world) g_world->oks.push_back(std::to_string(gen) + ":" + (msg ? msg : "(null)"));
    if (g_world && std::string(msg ? msg : "") != "probe") g_world->fire_armed_ok();  // user code in the OK reporter (OP_ARM_OK)
  };
}

World::World() {
  g_world = this;
  static bool first_world = true;
  auto prev = trompeloeil::set_reporter(make_reporter(0), make_ok_reporter(0));
  if (first_world) { first_world = false; if (!prev.first || !prev.second) g_default_reporter_empty = true; }
  m[0].reset(new M);
  m[1].reset(new M);
  mv[0].reset(new MV);
  for (auto& s : seq) s.reset(new trompeloeil::sequence);
  std::memset(eop, 0, sizeof eop);
}

World::~World() {
  // quiet teardown: reports produced while the world is dismantled are not part of any step
  reset_logs();
  for (auto& x : e) x.reset();
  for (auto& x : w) x.reset();
  for (auto& x : m) x.reset();
  for (auto& x : mv) x.reset();
  for (auto& x : seq) x.reset();
  parked_seq.clear();
  while (ntracer > 0) { --ntracer; rec[ntracer].reset(); box[ntracer].reset(); }
  trompeloeil::set_reporter(make_reporter(0), make_ok_reporter(0));
  g_world = nullptr;
}

void World::hs(int slot, int idx, int a) {
  clog.push_back("S" + std::to_string(slot) + "." + std::to_string(idx));
  int mode = eop[slot].semode[idx];
  if (mode == 1) { throw_depth = depth; throw SEThrow{slot, idx}; }
  if (mode == 4) { if (ntracer < NTRC) { rec[ntracer].reset(new RecTracer(this, ntracer)); ++ntracer; } return; }
  if (mode == 5) { if (callobj < 2) m[callobj].reset(); else mv[callobj - 2].reset(); return; }   // the mock object is destroyed from inside its own call; NAMED expectations outlive it
  if (mode == 2 || mode == 3) {
    if (mode == 3 && a >= 2) return;
    ++depth; int outer_fn = callfn; callfn = mode == 2 ? (int)G1 : (int)F1;
    try {
      call_fn(callobj, callfn, mode == 2 ? a : a + 1, 0);
    } catch (...) { --depth; callfn = outer_fn; throw; }
    --depth; callfn = outer_fn;
  }
}

// runs f from the destructor of a local while an exception propagates out of its scope (k1 = 1 of release / destroy / delete):
// end-of-life reports are the same whether a scope is left normally or by an exception
template <typename F> static void during_unwinding(F f) {
  struct Guard { F& f; ~Guard() { f(); } };
  try { Guard g{f}; throw 42; } catch (int) {}
}

std::string World::call_fn(int obj, int fn, int a1, int a2) {
  auto go = [&](auto& x) -> std::string {
    switch (fn) {
      case F1: return "r:" + std::to_string(x.f(a1));
      case F2: return "r:" + std::to_string(x.f(a1, a2));
      case G1: return "r:" + std::to_string(x.g(a1));
      case V1: x.v(a1); return "void";
      case R1: {
        int& r = x.r(a1);
        for (int s = 0; s < NSLOT; ++s) if (&r == &cell[s]) return "ref:" + std::to_string(s);
        return "ref:?";
      }
      case SV1: return "s:" + x.sv(a1);
      case Z0: return "r:" + std::to_string(x.z());
      case CF1: { const auto& cx = x; return "r:" + std::to_string(cx.f(a1)); }
      case CR1: {
        const int& r = x.cr(a1);
        int v = r;  // reads through the returned reference: it must designate a live object (the sanitizer build checks)
        return "cref:" + std::to_string(v);
      }
    }
    return "?";
  };
  if (obj < 2) return go(*m[obj]);
  return go(*mv[obj - 2]);
}

void World::install_reporter(int gen, bool pair, std::string* prev_desc) {
  // the returned callables are identified by invoking them with a probe
  auto probe_rep = [&](trompeloeil::reporter_func& f) -> int {
    size_t n = raw.size();
    f(trompeloeil::severity::nonfatal, "probe", 0UL, "probe");
    int g = raw.size() == n + 1 ? raw.back().gen : -1;
    raw.resize(n);
    return g;
  };
  auto probe_ok = [&](trompeloeil::ok_reporter_func& f) -> int {
    size_t n = oks.size();
    f("probe");
    int g = oks.size() == n + 1 ? atoi(oks.back().c_str()) : -1;
    oks.resize(n);
    return g;
  };
  std::ostringstream d;
  if (g_default_reporter_empty) d << "set_reporter-handed-back-an-empty-function-for-the-default-reporter ";
  long want[8]; for (int i = 0; i < 8; ++i) want[i] = delivered[i];   // per generation: reports delivered since it was installed
  auto state_ok = [&](trompeloeil::reporter_func& f) {
    RepFn* r = f.target<RepFn>();
    return r && r->gen >= 0 && r->gen < 8 && r->count == want[r->gen];
  };
  if (pair) {
    auto prev = trompeloeil::set_reporter(make_reporter(gen), make_ok_reporter(gen));
    bool ok = state_ok(prev.first);
    d << "prev=" << probe_rep(prev.first) << ',' << probe_ok(prev.second) << (ok ? "" : " returned-reporter-is-not-the-installed-object");
  } else {
    auto prev = trompeloeil::set_reporter(make_reporter(gen));
    bool ok = state_ok(prev);
    d << "prev=" << probe_rep(prev) << (ok ? "" : " returned-reporter-is-not-the-installed-object");
  }
  *prev_desc = d.str();
}

void World::observe(Outcome& o) {
  std::ostringstream q;
  for (int i = 0; i < NSLOT; ++i) if (e[i]) q << i << ':' << e[i]->is_satisfied() << e[i]->is_saturated() << ' ';
  o.qexp = q.str();
  std::ostringstream c;
  for (int s = 0; s < NSEQ; ++s) { if (!seq[s]) c << '-'; else c << seq[s]->is_completed(); }
  o.qseq = c.str();
}

std::string World::check_with_passes() const {
  if (!with_misuse.empty()) return with_misuse;
  // per slot, the evaluations must decompose into passes 0,1,..,k with all but possibly the last true
  for (int s = 0; s < NSLOT; ++s) {
    int expect = 0;
    int nwith = eused[s] ? g_shapes[eop[s].shape].nwith : 3;
    for (auto& ev : withlog) {
      if (ev.slot != s) continue;
      if (ev.idx != expect) { return "WITH clauses of slot " + std::to_string(s) + " evaluated out of declaration order or past a failing clause"; }
      if (!ev.res || ev.idx + 1 >= nwith) expect = 0; else expect = ev.idx + 1;
    }
    // a trailing incomplete pass (all true so far but clauses left) means a clause was skipped
    if (expect != 0) return "a WITH evaluation pass of slot " + std::to_string(s) + " stopped although no clause had failed";
  }
  return "";
}

Outcome World::apply(const Op& op) {
  Outcome o;
  reset_logs();
  depth = 0;
  bool sort_reports = false;
  try {
    switch (op.kind) {
      case OP_CREATE: {
        eop[op.slot] = op; cell[op.slot] = 500 + op.slot;
        try {
          e[op.slot] = site_fn(op.shape, op.slot)(this, op);
          eused[op.slot] = true;
        } catch (std::logic_error& x) {
          o.kind = OK_LOGIC_ERROR; o.misc = x.what();
        }
        break;
      }
      case OP_MONITOR: {
        eop[op.slot] = op;
        e[op.slot] = site_fn(op.shape, op.slot)(this, op);
        eused[op.slot] = true;
        break;
      }
      case OP_RELEASE: sort_reports = armed != 0; if (op.k1 == 1) during_unwinding([&] { e[op.slot].reset(); }); else e[op.slot].reset(); break;
      case OP_CALL: {
        callobj = op.obj; callfn = op.fn; calla1 = op.a1; calla2 = op.a2;
        try {
          if (op.k1 == 1) { try { throw 42; } catch (int) { o.retv = call_fn(op.obj, op.fn, op.a1, op.a2); } }  // the call is made while an exception is being handled
          else if (op.k1 == 3) {   // ... on another thread (joined before the history goes on): reporters, tracers and expectations are process-wide
            std::exception_ptr ep; std::string rv;
            std::thread th([&] { try { rv = call_fn(op.obj, op.fn, op.a1, op.a2); } catch (...) { ep = std::current_exception(); } });
            th.join();
            if (ep) std::rethrow_exception(ep);
            o.retv = rv;
          }
          else if (op.k1 == 2) during_unwinding([&] { o.retv = call_fn(op.obj, op.fn, op.a1, op.a2); });      // ... from a destructor while the stack is being unwound (plans use it for calls that return)
          else o.retv = call_fn(op.obj, op.fn, op.a1, op.a2);
          o.kind = OK_ACCEPT;
          if (o.retv.compare(0, 2, "r:") == 0) o.handler = atoi(o.retv.c_str() + 2) - 100;
          else if (o.retv.compare(0, 4, "ref:") == 0) o.handler = atoi(o.retv.c_str() + 4);
          else if (o.retv.compare(0, 5, "cref:") == 0) o.handler = atoi(o.retv.c_str() + 5) - 700;
          else if (o.retv.compare(0, 5, "s:str") == 0) o.handler = atoi(o.retv.c_str() + 5);
          else o.handler = -2;
        } catch (Fatal&) {
          if (raw.empty() || !raw.back().fatal) { o.kind = OK_OTHER; o.harness_error = "Fatal without fatal report"; }
          else if (raw.back().depth > 0) { o.kind = OK_NESTED_FATAL; o.retv = "nested-fatal"; o.handler = -2; }
          else {
            const std::string& t = raw.back().msg;
            o.kind = t.rfind("No match for call", 0) == 0 ? OK_NOMATCH : t.rfind("Sequence mismatch", 0) == 0 ? OK_SEQMIS
                   : t.rfind("Match of forbidden call", 0) == 0 ? OK_FORBIDDEN : OK_OTHER;
          }
        } catch (HThrow& t) { o.kind = OK_THROWN; o.handler = throw_depth == 0 ? t.slot : -2; o.retv = "t:" + std::to_string(t.slot);
        } catch (SEThrow& t) { o.kind = OK_THROWN; o.handler = throw_depth == 0 ? t.slot : -2; o.retv = "se:" + std::to_string(t.slot) + "." + std::to_string(t.idx);
        } catch (RetThrow& t) { o.kind = OK_THROWN; o.handler = throw_depth == 0 ? t.slot : -2; o.retv = "rx:" + std::to_string(t.slot);
        } catch (std::runtime_error& x) { o.kind = OK_THROWN; o.retv = std::string("e:") + x.what(); o.handler = throw_depth == 0 ? atoi(x.what() + 1) : -2;
        }
        depth = 0;
        break;
      }
      case OP_DESTROY_MOCK: {
        sort_reports = true;
        auto kill = [&] { if (op.obj < 2) m[op.obj].reset(); else mv[op.obj - 2].reset(); };
        if (op.k1 == 1) during_unwinding(kill); else kill();
        break;
      }
      case OP_MOVE_MOCK: mv[op.k1 - 2].reset(new MV(std::move(*mv[op.obj - 2]))); break;
      case OP_DESTROY_SEQ: sort_reports = armed != 0; seq[op.s1].reset(); break;
      case OP_MOVE_SEQ: seq[op.s1].reset(new trompeloeil::sequence(std::move(*seq[op.s1]))); break;
      case OP_ASSIGN_SEQ:
        sort_reports = armed != 0;
        if (op.k1 == 0) { *seq[op.s1] = trompeloeil::sequence{}; break; }
        // from a named sequence object that stays alive: the target object now carries the source's state (the harness keeps
        // calling it s2), the moved-from source object is parked until the world is dismantled
        *seq[op.s1] = std::move(*seq[op.s2]);
        std::swap(seq[op.s1], seq[op.s2]);
        if (op.k1 == 2) seq[op.s1].reset();   // the moved-from source object dies at once: an empty shell, nothing to report
        else parked_seq.push_back(std::move(seq[op.s1]));
        break;
      case OP_NEW_WATCHED: w[op.obj].reset(new WObj); break;
      case OP_DELETE_WATCHED: sort_reports = true; if (op.k1 == 1) during_unwinding([&] { w[op.obj].reset(); }); else w[op.obj].reset(); break;
      case OP_COPY_WATCHED:  // k2 = 0: copy from a const lvalue (the copy constructor proper); k2 = 1: from a non-const lvalue (picks the forwarding constructor)
        if (op.k2 == 0) w[op.k1].reset(new WObj(static_cast<const WObj&>(*w[op.obj]))); else w[op.k1].reset(new WObj(*w[op.obj]));
        break;
      case OP_MOVECONS_WATCHED: w[op.k1].reset(new WObj(std::move(*w[op.obj]))); break;
      case OP_ASSIGN_WATCHED: *w[op.obj] = static_cast<const WObj&>(*w[op.k1]); break;
      case OP_MOVEASSIGN_WATCHED: *w[op.obj] = std::move(*w[op.k1]); break;
      case OP_PUSH_TRACER:
        if (op.k1 == 0 || op.k1 == 2) rec[ntracer].reset(new RecTracer(this, ntracer, op.k1 == 2)); else box[ntracer].reset(new StreamTracerBox(this, ntracer));
        ++ntracer; break;
      case OP_POP_TRACER: --ntracer; rec[ntracer].reset(); box[ntracer].reset(); break;
      case OP_SET_REPORTER: install_reporter(op.k1, op.k2 != 0, &o.misc); break;
      case OP_ARM_REPORTER: armed = 1 + op.obj; break;
      case OP_ARM_OK: armed_ok = 1 + op.k1; break;
    }
  } catch (Fatal&) {
    o.kind = OK_OTHER; o.harness_error = "fatal report outside a mock call";
  }
  // collect stream_tracer output produced by this step
  for (int i = 0; i < ntracer; ++i) if (box[i]) {
    std::string s = box[i]->os.str(); box[i]->os.str("");
    size_t pos = 0;
    while (pos < s.size()) {
      size_t end = s.find("\n\n", pos);
      if (end == std::string::npos) { traces.push_back({i, "?", 0, s.substr(pos)}); break; }
      std::string rec_ = s.substr(pos, end + 1 - pos);  // "file:line\nmsg" (msg keeps its own trailing newline)
      pos = end + 2;
      size_t nl = rec_.find('\n');
      std::string loc = rec_.substr(0, nl), msg = rec_.substr(nl + 1);
      size_t colon = loc.rfind(':');
      traces.push_back({i, loc.substr(0, colon), strtoul(loc.c_str() + colon + 1, nullptr, 10), msg});
    }
  }
  for (auto& r : raw) o.reps.push_back(parse_report(*this, r));
  if (sort_reports) std::stable_sort(o.reps.begin(), o.reps.end(), [](const Report& a, const Report& b) { return a.slot < b.slot; });
  for (auto& k : oks) {
    // "gen:text" -> "gen:slot"
    size_t c = k.find(':'); std::string text = k.substr(c + 1); int found = -1;
    for (int s = 0; s < NSLOT; ++s) if (eused[s] && text == site_of(eop[s].shape, s).text) found = s;
    o.oks.push_back(k.substr(0, c + 1) + (found >= 0 ? std::to_string(found) : "?" + text));
  }
  for (auto& t : traces) o.traces.push_back(parse_trace(*this, t));
  o.clog = clog;
  std::string wp = check_with_passes();
  if (!wp.empty()) o.clog.push_back("!" + wp);
  if (op.kind == OP_RELEASE) eused[op.slot] = false;
  observe(o);
  return o;
}

// ---------------- parsing of report texts (DESIGN.md appendix E) ----------------

static int slot_by_loc(const World& w, const std::string& file, unsigned long line) {
  for (int s = 0; s < NSLOT; ++s) {
    if (!w.eused[s]) continue;
    const Site& si = site_of(w.eop[s].shape, s);
    if (si.line == line && file == si.file) return s;
  }
  return -3;
}
// "text at file:line" -> slot; checks that text and location agree
static int slot_by_text_at(const World& w, const std::string& s, bool* text_ok) {
  size_t at = s.rfind(" at ");
  if (at == std::string::npos) return -3;
  std::string text = s.substr(0, at), loc = s.substr(at + 4);
  size_t colon = loc.rfind(':');
  if (colon == std::string::npos) return -3;
  int slot = slot_by_loc(w, loc.substr(0, colon), strtoul(loc.c_str() + colon + 1, nullptr, 10));
  if (slot >= 0 && text_ok) *text_ok = text == site_of(w.eop[slot].shape, slot).text;
  return slot;
}
static std::vector<std::string> split_lines(const std::string& s) {
  std::vector<std::string> v; size_t p = 0;
  while (p <= s.size()) { size_t e = s.find('\n', p); if (e == std::string::npos) { if (p < s.size()) v.push_back(s.substr(p)); break; } v.push_back(s.substr(p, e - p)); p = e + 1; }
  return v;
}
static std::string mk_render(int mk, int k) {
  switch (mk) {
    case MK_ANY: return " matching _";
    case MK_ANYM: return " matching ANY(int)";
    case MK_EQ: case MK_VAL: return " == " + std::to_string(k);
    case MK_LT: return " < " + std::to_string(k);
    case MK_NE: return " != " + std::to_string(k);
    case MK_GE: return " >= " + std::to_string(k);
  }
  return "?";
}
// "  param  _1 == 1" lines of actual arguments -> "1,2"
static bool parse_actual_params(const std::vector<std::string>& lines, size_t from, size_t to, std::string* out) {
  std::string r; int n = 0;
  for (size_t i = from; i < to; ++i) {
    const std::string& l = lines[i];
    std::string pre = "  param  _" + std::to_string(n + 1) + " == ";
    if (l.compare(0, pre.size(), pre) != 0) return false;
    if (n) r += ','; r += l.substr(pre.size()); ++n;
  }
  *out = r; return true;
}
// expected-parameter lines of an end-of-life report against the matchers the slot was created with
static bool expected_params_ok(const World& w, int slot, const std::vector<std::string>& lines, size_t from) {
  const Shape& sh = g_shapes[w.eop[slot].shape];
  std::vector<std::string> want;
  if (sh.fn != Z0) want.push_back("  param  _1" + mk_render(sh.mk1, w.eop[slot].k1));
  if (sh.fn == F2) want.push_back("  param  _2" + mk_render(sh.mk2, w.eop[slot].k2));
  if (lines.size() - from != want.size()) return false;
  for (size_t i = 0; i < want.size(); ++i) if (lines[from + i] != want[i]) return false;
  return true;
}

Report parse_report(const World& w, const RawReport& r) {
  Report p; p.fatal = r.fatal; p.gen = r.gen; p.raw = r.msg; p.kind = R_OTHER; p.slot = -1;
  const std::string& t = r.msg;
  std::vector<std::string> lines = split_lines(t);
  int locslot = r.line ? slot_by_loc(w, r.file, r.line) : -1;
  std::ostringstream d;
  auto starts = [&](const char* s) { return t.rfind(s, 0) == 0; };
  if (starts("No match for call of ")) {
    p.kind = R_NOMATCH; p.slot = r.line ? -3 : -1;
    // first line: "No match for call of f with signature int(int) with."
    std::string head = lines[0].substr(strlen("No match for call of "));
    int fn = -1;
    if (head == "f with signature int(int) with.") fn = w.callfn == CF1 ? (int)CF1 : (int)F1;  // the const overload prints the same head
    else if (head == "f with signature int(int, int) with.") fn = F2;
    else if (head == "g with signature int(int) with.") fn = G1;
    else if (head == "v with signature void(int) with.") fn = V1;
    else if (head == "r with signature int&(int) with.") fn = R1;
    else if (head == "cr with signature const int&(int) with.") fn = CR1;
    else if (head == "sv with signature std::string(int) with.") fn = SV1;
    else if (head == "z with signature int() with.") fn = Z0;
    size_t i = 1; while (i < lines.size() && lines[i].compare(0, 8, "  param ") == 0) ++i;
    std::string args; bool ok = parse_actual_params(lines, 1, i, &args);
    d << "fn=" << fn << " args=" << (ok ? args : "?") << ' ';
    // skip blank line
    std::vector<int> sat; bool satmode = false; std::string tried; bool bad = false;
    for (; i < lines.size(); ++i) {
      const std::string& l = lines[i];
      if (l.empty()) continue;
      if (l == "Matches saturated call requirement") { satmode = true; continue; }
      if (satmode) {
        bool tok = true; int s = l.compare(0, 2, "  ") == 0 ? slot_by_text_at(w, l.substr(2), &tok) : -3;
        if (s < 0 || !tok) bad = true;
        sat.push_back(s);
      } else if (l.compare(0, 6, "Tried ") == 0) {
        bool tok = true; int s = slot_by_text_at(w, l.substr(6), &tok);
        if (s < 0 || !tok) bad = true;
        if (!tried.empty()) tried += ';';
        tried += std::to_string(s) + ":";
      } else if (l.compare(0, 11, "  Expected ") == 0) {
        // "  Expected  _1 == 1"
        size_t u = l.find('_'); int pos = atoi(l.c_str() + u + 1);
        tried += "p" + std::to_string(pos);
        // rendering of the expectation must be that of the matcher
        int s = atoi(tried.c_str() + (tried.rfind(';') == std::string::npos ? 0 : tried.rfind(';') + 1));
        if (s >= 0 && s < NSLOT && w.eused[s]) {
          const Shape& sh = g_shapes[w.eop[s].shape];
          std::string want = "  Expected  _" + std::to_string(pos) + (pos == 1 ? mk_render(sh.mk1, w.eop[s].k1) : mk_render(sh.mk2, w.eop[s].k2));
          if (l != want) bad = true;
        }
      } else if (l.compare(0, 14, "  Failed WITH(") == 0) {
        // "  Failed WITH(pw->hw(2,0,_1))"
        size_t c1 = l.find(','), c2 = l.find(',', c1 + 1);
        int idx = (c1 != std::string::npos && c2 != std::string::npos) ? atoi(l.c_str() + c1 + 1) : -1;
        tried += "W" + std::to_string(idx);
      } else bad = true;
    }
    if (satmode) { std::sort(sat.begin(), sat.end()); d << "sat{"; for (int s : sat) d << s << ','; d << '}'; }
    else d << "tried[" << tried << (tried.empty() ? "" : ";") << ']';
    if (bad) d << " malformed-listing";
  } else if (starts("Match of forbidden call of ")) {
    p.kind = R_FORBIDDEN; p.slot = locslot;
    bool tok = true; int s = slot_by_text_at(w, lines[0].substr(strlen("Match of forbidden call of ")), &tok);
    std::string args; bool ok = parse_actual_params(lines, 1, lines.size(), &args);
    d << "args=" << (ok ? args : "?");
    if (s != locslot || !tok) d << " text-or-location-mismatch";
  } else if (starts("Sequence mismatch for sequence ")) {
    p.kind = R_SEQMIS; p.slot = locslot;
  } else if (starts("Unfulfilled expectation:\n") || starts("Pending expectation on destroyed mock object:\n")) {
    p.kind = starts("Unfulfilled") ? R_UNFULFILLED : R_PENDING_DESTROYED; p.slot = locslot;
    // "Expected <text> to be called once, actually never called"
    const std::string& l = lines.size() > 1 ? lines[1] : t;
    size_t a = l.find(" to be called "), b = l.find(", actually ");
    int L = -1, c = -1; bool tok = false;
    if (l.compare(0, 9, "Expected ") == 0 && a != std::string::npos && b != std::string::npos) {
      std::string text = l.substr(9, a - 9), req = l.substr(a + 14, b - a - 14), act = l.substr(b + 11);
      L = req == "once" ? 1 : atoi(req.c_str());
      if (req != "once" && req != std::to_string(L) + " times") L = -1;
      if (act == "never called") c = 0; else if (act == "called once") c = 1;
      else if (act.compare(0, 7, "called ") == 0) { c = atoi(act.c_str() + 7); if (act != "called " + std::to_string(c) + " times") c = -1; }
      tok = locslot >= 0 && text == site_of(w.eop[locslot].shape, locslot).text;
    }
    d << "L=" << L << " c=" << c;
    if (!tok) d << " text-mismatch";
    if (locslot >= 0 && !expected_params_ok(w, locslot, lines, 2)) d << " params-mismatch";
  } else if (starts("Sequence expectations not met at destruction of sequence object \"")) {
    p.kind = R_SEQ_TEARDOWN; p.slot = r.line ? -3 : -1;
    d << '[';
    bool bad = false;
    for (size_t i = 1; i < lines.size(); ++i) {
      const std::string& l = lines[i];
      if (l.empty()) continue;
      if (l.compare(0, 10, "  missing ") != 0) { bad = true; continue; }
      bool tok = true; int s = slot_by_text_at(w, l.substr(10), &tok);
      // monitors print their invocation text; accept either
      d << s << ',';
      if (s < 0) bad = true;
    }
    d << ']';
    if (bad) d << " malformed-listing";
  } else if (starts("Object ") && t.find(" is still alive") != std::string::npos) {
    p.kind = R_STILL_ALIVE; p.slot = locslot;
  } else if (starts("Unexpected destruction of ")) {
    p.kind = R_UNEXPECTED_DESTRUCTION; p.slot = r.line ? -3 : -1;
  }
  p.detail = d.str();
  return p;
}

std::string parse_trace(const World& w, const RawTrace& t) {
  // msg: "<text> with.\n  param  _1 == 1\n[ -> v\n | threw ...\n]"
  std::ostringstream o;
  int slot = slot_by_loc(w, t.file, t.line);
  std::vector<std::string> lines = split_lines(t.msg);
  bool tok = false; std::string args = "?", result;
  if (!lines.empty()) {
    std::string head = lines[0];
    if (head.size() > 6 && head.compare(head.size() - 6, 6, " with.") == 0 && slot >= 0)
      tok = head.substr(0, head.size() - 6) == site_of(w.eop[slot].shape, slot).text;
    size_t i = 1; while (i < lines.size() && lines[i].compare(0, 8, "  param ") == 0) ++i;
    parse_actual_params(lines, 1, i, &args);
    for (; i < lines.size(); ++i) { std::string l = lines[i]; if (!l.empty() && l[0] == ' ') l = l.substr(1); result += l; }
  }
  o << 'T' << t.tracer << ':' << slot << ":args=" << args << ':' << result;
  if (!tok) o << " text-mismatch";
  return o.str();
}

}  // namespace hm
