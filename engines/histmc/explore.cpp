// Engine E1 "histmc": explicit-state breadth-first exploration of the reference model;
// every explored transition is validated by replaying (history + op) on a fresh world of
// real trompeloeil objects and comparing the observable outcome of every step.
#include "model.hpp"
#include "world.hpp"
#include <chrono>
#include <cstdio>
#include <cstdlib>
#include <fstream>
#include <map>
#include <cctype>
#include <set>
#include <unordered_set>
#include <poll.h>
#include <signal.h>
#include <sys/mman.h>
#include <sys/wait.h>
#include <unistd.h>

namespace hm {

static const char* OPK[] = {"create", "release", "call", "destroy_mock", "move_mock", "destroy_seq", "move_seq", "new_watched",
  "delete_watched", "copy_watched", "movecons_watched", "assign_watched", "moveassign_watched", "monitor", "push_tracer", "pop_tracer", "set_reporter", "assign_fresh_seq", "arm_ok_reporter_to_set_reporter", "arm_reporter_to_destroy"};
static const char* FNN[] = {"f", "g", "f2", "v", "r", "cr", "sv", "f const", "z"};
static_assert(sizeof FNN / sizeof FNN[0] == NFN, "one name per mock function");
static const char* OKN[] = {"done", "accept", "thrown", "nomatch", "forbidden", "seqmis", "logic_error", "nested_fatal", "other"};
static const char* RKN[] = {"nomatch", "forbidden", "seqmis", "unfulfilled", "pending_destroyed", "seq_teardown", "still_alive", "unexpected_destruction", "other"};

std::string op_str(const Op& op) {
  std::ostringstream o;
  o << OPK[op.kind];
  auto bounds = [&]() { std::ostringstream b; b << '[' << (int)op.lo << ','; if (op.hi == INF) b << "inf"; else b << (int)op.hi; b << ']'; return b.str(); };
  switch (op.kind) {
    case OP_CREATE: {
      const Shape& sh = g_shapes[op.shape];
      o << " e" << (int)op.slot << " := " << site_of(op.shape, op.slot).text << " on obj" << (int)op.obj << " k=(" << (int)op.k1 << ',' << (int)op.k2 << ") clauses=" << sh.clauses;
      if (sh.tform == TF_RT) o << " RT_TIMES" << bounds(); else if (sh.tform == TF_RT1) o << " RT_TIMES(" << (int)op.lo << ')'; else o << " tform=" << (int)sh.tform << '(' << (int)sh.tl << ',' << (int)sh.th << ')';
      if (sh.seqar >= 1) o << " seq=s" << (int)op.s1; if (sh.seqar >= 2) o << ",s" << (int)op.s2;
      if (sh.nwith) { o << " with="; for (int i = 0; i < sh.nwith; ++i) o << (int)op.wmode[i]; }
      if (sh.nse) { o << " se="; for (int i = 0; i < sh.nse; ++i) o << (int)op.semode[i]; }
      o << " act=" << (int)sh.act << '/' << (int)op.actmode;
      break;
    }
    case OP_MONITOR: { const Shape& sh = g_shapes[op.shape]; o << " e" << (int)op.slot << " := REQUIRE_DESTRUCTION(w" << (int)op.obj << ')'; if (sh.seqar >= 1) o << " seq=s" << (int)op.s1; if (sh.seqar >= 2) o << ",s" << (int)op.s2; break; }
    case OP_RELEASE: o << " e" << (int)op.slot; if (op.k1 == 1) o << " [during stack unwinding]"; break;
    case OP_CALL: o << " obj" << (int)op.obj << '.' << FNN[op.fn] << '('; if (op.fn != Z0) o << (int)op.a1; if (op.fn == F2) o << ',' << (int)op.a2; o << ')'; if (op.k1 == 1) o << " [from a catch handler]"; if (op.k1 == 2) o << " [from a destructor during stack unwinding]"; if (op.k1 == 3) o << " [on another thread]"; break;
    case OP_DESTROY_MOCK: case OP_ARM_REPORTER: o << " obj" << (int)op.obj; if (op.kind == OP_DESTROY_MOCK && op.k1 == 1) o << " [during stack unwinding]"; break;
    case OP_MOVE_MOCK: o << " obj" << (int)op.obj << " -> obj" << (int)op.k1; break;
    case OP_ASSIGN_SEQ: o << " s" << (int)op.s1; if (op.k1 >= 1) o << " from s" << (int)op.s2 << (op.k1 == 2 ? " (the moved-from object is destroyed at once)" : " (the moved-from object stays alive)"); break;
    case OP_DESTROY_SEQ: case OP_MOVE_SEQ: o << " s" << (int)op.s1; break;
    case OP_NEW_WATCHED: case OP_DELETE_WATCHED: o << " w" << (int)op.obj; if (op.kind == OP_DELETE_WATCHED && op.k1 == 1) o << " [during stack unwinding]"; break;
    case OP_COPY_WATCHED: case OP_MOVECONS_WATCHED: o << " w" << (int)op.obj << " -> new w" << (int)op.k1; break;
    case OP_ASSIGN_WATCHED: case OP_MOVEASSIGN_WATCHED: o << " w" << (int)op.obj << " = w" << (int)op.k1; break;
    case OP_PUSH_TRACER: o << " kind=" << (int)op.k1; break;
    case OP_SET_REPORTER: o << " gen=" << (int)op.k1 << (op.k2 ? " (pair)" : " (single)"); break;
    case OP_ARM_OK: if (op.k1 == 9) o << " (the OK callback repeats the reported call once)"; else o << " gen=" << (int)op.k1; break;
    default: break;
  }
  return o.str();
}

std::string outcome_str(const Outcome& oc) {
  std::ostringstream o;
  o << OKN[oc.kind] << " handler=" << oc.handler << " ret=" << oc.retv << " reports=[";
  for (auto& r : oc.reps) o << (r.fatal ? "F:" : "N:") << RKN[r.kind] << (r.optional ? "?" : "") << "(e" << r.slot << ",g" << r.gen << ' ' << r.detail << ") ";
  o << "] ok=[";
  for (auto& s : oc.oks) o << s << ' ';
  o << "] trace=[";
  for (auto& s : oc.traces) o << s << " | ";
  o << "] clog=[";
  for (auto& s : oc.clog) o << s << ' ';
  o << "] qexp=" << oc.qexp << " qseq=" << oc.qseq << " misc=" << oc.misc;
  if (!oc.harness_error.empty()) o << " HARNESS:" << oc.harness_error;
  return o.str();
}

// ---------- comparison ----------
static bool rep_eq(const Report& m, const Report& i, unsigned mask) {
  if (m.fatal != i.fatal || m.kind != i.kind) return false;
  if ((mask & F_REPCULPRIT) && m.slot != i.slot) return false;
  if ((mask & F_REPDETAIL) && m.detail != i.detail) return false;
  if ((mask & F_MISC) && m.gen != i.gen) return false;
  return true;
}
static bool reps_match(const std::vector<Report>& m, size_t a, const std::vector<Report>& i, size_t b, unsigned mask, long* lenient) {
  if (a == m.size()) return b == i.size();
  if (b < i.size() && rep_eq(m[a], i[b], mask) && reps_match(m, a + 1, i, b + 1, mask, lenient)) { if (m[a].optional && lenient) ++*lenient; return true; }
  if (m[a].optional && reps_match(m, a + 1, i, b, mask, lenient)) { if (lenient) ++*lenient; return true; }
  return false;
}
static bool strs_match(const std::vector<std::string>& m, size_t a, const std::vector<std::string>& i, size_t b) {
  if (a == m.size()) return b == i.size();
  bool opt = !m[a].empty() && m[a][0] == '?';
  std::string want = opt ? m[a].substr(1) : m[a];
  std::string got = b < i.size() ? i[b] : std::string();
  if (!want.empty() && want[0] == '~') {  // tracer index not compared
    want = want.substr(want.find(':') + 1);
    if (b < i.size()) got = got.substr(got.find(':') + 1);
  }
  if (b < i.size() && want == got && strs_match(m, a + 1, i, b + 1)) return true;
  if (opt && strs_match(m, a + 1, i, b)) return true;
  return false;
}
// returns bitmask of deviating field groups (all groups evaluated)
static unsigned deviation(const Outcome& m, const Outcome& i, bool sorted_reports, long* lenient) {
  unsigned dev = 0;
  if (m.kind != i.kind) dev |= F_KIND;
  if (i.handler != -2 && m.handler != i.handler) dev |= F_HANDLER;
  if (m.kind == i.kind && i.handler != -2 && m.retv != i.retv) dev |= F_HANDLER;
  std::vector<Report> mr = m.reps;
  if (sorted_reports) std::stable_sort(mr.begin(), mr.end(), [](const Report& a, const Report& b) { return a.slot < b.slot; });
  if (!reps_match(mr, 0, i.reps, 0, 0, nullptr)) dev |= F_REPCOUNT;
  else if (!reps_match(mr, 0, i.reps, 0, F_REPCULPRIT, nullptr)) dev |= F_REPCULPRIT;
  else if (!reps_match(mr, 0, i.reps, 0, F_REPCULPRIT | F_REPDETAIL, nullptr)) dev |= F_REPDETAIL;
  else { if (!reps_match(mr, 0, i.reps, 0, F_REPCULPRIT | F_REPDETAIL | F_MISC, lenient)) dev |= F_MISC; }
  if (m.oks != i.oks) dev |= F_OKREP;
  if (!strs_match(m.traces, 0, i.traces, 0)) dev |= F_TRACE;
  if (m.clog != i.clog) dev |= F_CLOG;
  if (m.qexp != i.qexp) dev |= F_QEXP;
  if (m.qseq != i.qseq) dev |= F_QSEQ;
  if (m.misc != i.misc && m.kind != OK_LOGIC_ERROR) dev |= F_MISC;
  if (!i.harness_error.empty()) dev |= F_KIND;
  return dev;
}
static const char* FIELDN[] = {"kind", "handler/return", "report count/severity/kind", "report culprit", "report detail", "ok reports", "trace records", "clause log", "is_satisfied/is_saturated", "is_completed", "reporter routing"};
static std::string fields_str(unsigned d) { std::string s; for (int b = 0; b < 11; ++b) if (d & (1u << b)) { if (!s.empty()) s += ", "; s += FIELDN[b]; } return s; }

// ---------- plans ----------
struct Plan {
  std::string name;
  unsigned mask = F_ALL;
  int du = 0, dm = 0;
  std::vector<Op> alphabet;
  std::vector<std::vector<Op>> prefixes;
};

static bool read_op(std::istream& in, Op& op) {
  int v[21];
  for (int i = 0; i < 21; ++i) if (!(in >> v[i])) return false;
  op.kind = (uint8_t)v[0]; op.slot = (int8_t)v[1]; op.shape = (int16_t)v[2]; op.obj = (int8_t)v[3]; op.fn = (int8_t)v[4];
  op.a1 = (int8_t)v[5]; op.a2 = (int8_t)v[6]; op.k1 = (int8_t)v[7]; op.k2 = (int8_t)v[8]; op.lo = (uint8_t)v[9]; op.hi = (uint8_t)v[10];
  op.s1 = (int8_t)v[11]; op.s2 = (int8_t)v[12];
  for (int i = 0; i < 3; ++i) { op.wmode[i] = (uint8_t)v[13 + i]; op.semode[i] = (uint8_t)v[16 + i]; }
  op.actmode = (uint8_t)v[19];
  (void)v[20];
  return true;
}
static std::string op_ints(const Op& op) {
  std::ostringstream o;
  o << '[' << (int)op.kind << ',' << (int)op.slot << ',' << (int)op.shape << ',' << (int)op.obj << ',' << (int)op.fn << ',' << (int)op.a1 << ',' << (int)op.a2 << ','
    << (int)op.k1 << ',' << (int)op.k2 << ',' << (int)op.lo << ',' << (int)op.hi << ',' << (int)op.s1 << ',' << (int)op.s2;
  for (int i = 0; i < 3; ++i) o << ',' << (int)op.wmode[i];
  for (int i = 0; i < 3; ++i) o << ',' << (int)op.semode[i];
  o << ',' << (int)op.actmode << ",0]";
  return o.str();
}
static std::vector<Plan> read_plans(const std::string& path) {
  std::ifstream in(path);
  if (!in) { fprintf(stderr, "cannot open plan file %s\n", path.c_str()); exit(2); }
  std::vector<Plan> plans; std::string tok;
  while (in >> tok) {
    if (tok != "plan") { fprintf(stderr, "plan file: unexpected token %s\n", tok.c_str()); exit(2); }
    Plan p; size_t na, np;
    in >> p.name >> std::hex >> p.mask >> std::dec >> p.du >> p.dm >> na;
    p.alphabet.resize(na);
    for (auto& op : p.alphabet) if (!read_op(in, op)) { fprintf(stderr, "plan file: bad op\n"); exit(2); }
    in >> np; p.prefixes.resize(np);
    for (auto& pre : p.prefixes) { size_t k; in >> k; pre.resize(k); for (auto& op : pre) if (!read_op(in, op)) { fprintf(stderr, "plan file: bad prefix op\n"); exit(2); } }
    plans.push_back(std::move(p));
  }
  return plans;
}

static std::string json_escape(const std::string& s) {
  std::string o;
  for (unsigned char c : s) { if (c == '"' || c == '\\') { o += '\\'; o += (char)c; } else if (c == '\n') o += "\\n"; else if (c < 0x20) { char b[8]; snprintf(b, sizeof b, "\\u%04x", c); o += b; } else o += (char)c; }
  return o;
}

// ---------- run one history on model and implementation, step by step ----------
struct StepCmp { Outcome mo, io; unsigned dev; };
struct HistoryResult { std::vector<StepCmp> steps; int first_bad = -1; unsigned bad_fields = 0; bool disabled = false; long lenient = 0; std::string selfcheck; };

static HistoryResult run_history(const std::vector<Op>& ops, unsigned mask, const Guards& g, bool verbose_all) {
  HistoryResult r;
  Model model; model.st = Model::initial(); model.guards = g;
  World world;
  for (size_t k = 0; k < ops.size(); ++k) {
    if (!model.enabled(ops[k])) { r.disabled = true; break; }
    StepCmp sc;
    const bool armed_before = model.st.armed != 0;
    sc.mo = model.step(ops[k]);
    sc.io = world.apply(ops[k]);
    bool sorted = ops[k].kind == OP_DESTROY_MOCK || ops[k].kind == OP_DELETE_WATCHED || ((ops[k].kind == OP_RELEASE || ops[k].kind == OP_DESTROY_SEQ || ops[k].kind == OP_ASSIGN_SEQ) && armed_before);
    sc.dev = deviation(sc.mo, sc.io, sorted, &r.lenient);
    std::string sck = model.selfcheck();
    if (!sck.empty() && r.selfcheck.empty()) r.selfcheck = sck;
    bool bad = (sc.dev & mask) != 0 || (sc.dev & F_STATE) != 0;
    r.steps.push_back(std::move(sc));
    if (bad && r.first_bad < 0) { r.first_bad = (int)k; r.bad_fields = r.steps.back().dev; if (!verbose_all) break; }
  }
  return r;
}

struct Hash128 { uint64_t a, b; bool operator==(const Hash128& o) const { return a == o.a && b == o.b; } };
struct Hash128H { size_t operator()(const Hash128& h) const { return (size_t)h.a; } };
static Hash128 hash_key(const std::string& s) {
  uint64_t h1 = 1469598103934665603ULL, h2 = 0x9E3779B97F4A7C15ULL;
  for (unsigned char c : s) { h1 = (h1 ^ c) * 1099511628211ULL; h2 = (h2 + c) * 0xff51afd7ed558ccdULL; h2 ^= h2 >> 29; }
  return {h1, h2};
}

constexpr int MAXD = 12;
enum { HISTORY_WATCHDOG_S = 10 };   // a history takes well under a millisecond on the reference tree
struct Node { MState st; int32_t prefix; uint8_t len; uint8_t stut; uint8_t hist[MAXD]; };  // stut: reached by an operation that left the model state unchanged
struct Rec { uint8_t type; Hash128 h; Node n; };  // type 1 successor, 2 end-of-worker stats
struct Stats { long transitions = 0, ops = 0, fenced = 0, foreign = 0, lenient = 0, violations = 0, disabled = 0, selfcheck_fail = 0, incomplete = 0; };
struct Flight { volatile int node, opidx, alive; };

static void write_all(int fd, const void* p, size_t n) { const char* c = (const char*)p; while (n) { ssize_t k = write(fd, c, n); if (k <= 0) { if (errno == EINTR) continue; _exit(3); } c += k; n -= (size_t)k; } }

struct Explorer {
  std::string prop, tier, replay_dir, tmp_dir;
  Guards guards;
  int workers = 16;
  double deadline_s = 1e9;
  std::chrono::steady_clock::time_point t0 = std::chrono::steady_clock::now();
  double elapsed() const { return std::chrono::duration<double>(std::chrono::steady_clock::now() - t0).count(); }

  // totals
  long states = 0, transitions = 0, ops = 0, fenced = 0, foreign = 0, lenient = 0, violations = 0, crashes = 0, selfcheck_fail = 0;
  int completed_depth = 0; bool exhaustive = true;
  std::set<std::string> outcome_classes;
  std::vector<std::string> samples, replay_files, plan_summaries;
  int replay_seq = 0;

  std::vector<Op> history_ops(const Plan& p, const Node& n, int extra = -1) const {
    std::vector<Op> v = p.prefixes[n.prefix];
    for (int i = 0; i < n.len; ++i) v.push_back(p.alphabet[n.hist[i]]);
    if (extra >= 0) v.push_back(p.alphabet[extra]);
    return v;
  }

  std::string write_replay(const Plan& p, const std::vector<Op>& ops, const HistoryResult* hr, const std::string& what, const std::string& tag) {
    std::ostringstream path; path << replay_dir << '/' << prop << '-' << tag << ".json";
    std::ofstream f(path.str());
    f << "{\n \"property\": \"" << prop << "\",\n \"engine\": \"histmc\",\n \"plan\": \"" << p.name << "\",\n \"mask\": " << p.mask << ",\n \"what\": \"" << json_escape(what) << "\",\n \"ops\": [";
    for (size_t i = 0; i < ops.size(); ++i) f << (i ? "," : "") << "\n  " << op_ints(ops[i]);
    f << "\n ],\n \"shapes\": {";
    {
      std::set<int> used; for (auto& o : ops) if (o.kind == OP_CREATE || o.kind == OP_MONITOR) used.insert(o.shape);
      bool first = true;
      for (int si : used) {
        const Shape& sh = g_shapes[si];
        f << (first ? "" : ",") << "\n  \"" << si << "\": [" << (int)sh.mock << ", " << (int)sh.fn << ", " << (int)sh.mk1 << ", " << (int)sh.mk2 << ", " << (int)sh.nwith << ", " << (int)sh.nse << ", " << (int)sh.seqar << ", "
          << (int)sh.tform << ", " << (int)sh.tl << ", " << (int)sh.th << ", " << (int)sh.act << ", \"" << sh.clauses << "\"]";
        first = false;
      }
    }
    f << "\n },\n \"readable\": [";
    for (size_t i = 0; i < ops.size(); ++i) f << (i ? "," : "") << "\n  \"" << json_escape(op_str(ops[i])) << '"';
    f << "\n ]";
    if (hr && hr->first_bad >= 0) {
      const StepCmp& sc = hr->steps[(size_t)hr->first_bad];
      f << ",\n \"failing_step\": " << hr->first_bad << ",\n \"deviating_fields\": \"" << json_escape(fields_str(sc.dev)) << "\",\n \"model\": \"" << json_escape(outcome_str(sc.mo))
        << "\",\n \"implementation\": \"" << json_escape(outcome_str(sc.io)) << "\",\n \"raw_reports\": [";
      for (size_t i = 0; i < sc.io.reps.size(); ++i) f << (i ? "," : "") << "\n  \"" << json_escape(sc.io.reps[i].raw) << '"';
      f << "\n ]";
    }
    f << "\n}\n";
    return path.str();
  }

  // worker body: process frontier nodes j = id (mod workers); stream successors to fd
  void worker(const Plan& p, const std::vector<Node>& frontier, int id, int fd, Flight* fl, bool expand) {
    Stats s; std::set<std::string> classes; std::vector<std::string> wsamples;
    std::unordered_set<Hash128, Hash128H> local;
    for (size_t j = (size_t)id; j < frontier.size(); j += (size_t)workers) {
      const Node& n = frontier[j];
      if ((j / (size_t)workers) % 64 == 0 && elapsed() > deadline_s) { s.incomplete = 1; break; }
      Model base; base.st = n.st; base.guards = guards;
      const std::string basekey = base.key();
      if (n.len == 0 && !p.prefixes[(size_t)n.prefix].empty()) {
        // the configuration prefix itself is a history: validate it before anything is built on it
        fl[id].node = (int)j; fl[id].opidx = -1;
        std::vector<Op> pops = history_ops(p, n);
        alarm(HISTORY_WATCHDOG_S);   // a history that does not come back (a loop inside the library) ends this worker; the parent attributes it
        HistoryResult hr = run_history(pops, p.mask, guards, false);
        alarm(0);
        ++s.transitions; s.ops += (long)hr.steps.size();
        if (hr.first_bad >= 0) {
          if (hr.bad_fields & p.mask) {
            ++s.violations;
            if (s.violations <= 3) { pops.resize((size_t)hr.first_bad + 1); write_replay(p, pops, &hr, "model and implementation differ in: " + fields_str(hr.bad_fields & p.mask), "w" + std::to_string(id) + "-" + std::to_string(s.violations)); }
          } else ++s.foreign;
          continue;
        }
      }
      for (size_t x = 0; x < p.alphabet.size(); ++x) {
        const Op& op = p.alphabet[x];
        if (!base.enabled(op)) continue;
        if (base.fenced(op)) { ++s.fenced; continue; }
        fl[id].node = (int)j; fl[id].opidx = (int)x;
        std::vector<Op> ops = history_ops(p, n, (int)x);
        alarm(HISTORY_WATCHDOG_S);
        HistoryResult hr = run_history(ops, p.mask, guards, false);
        alarm(0);
        ++s.transitions; s.ops += (long)hr.steps.size(); s.lenient += hr.lenient;
        if (hr.disabled) { ++s.disabled; continue; }
        if (!hr.selfcheck.empty()) { ++s.selfcheck_fail; fprintf(stderr, "model self-check failed: %s\n", hr.selfcheck.c_str()); }
        const StepCmp& last = hr.steps.back();
        {
          std::ostringstream c; c << OPK[op.kind] << '/' << OKN[last.io.kind] << '/';
          for (auto& r : last.io.reps) c << (r.fatal ? 'F' : 'N') << RKN[r.kind] << ',';
          classes.insert(c.str());
        }
        if (hr.first_bad >= 0) {
          bool is_last = hr.first_bad == (int)ops.size() - 1;
          unsigned dev = hr.bad_fields;
          if (!is_last) {
            // the prefix passed when it was discovered: nondeterminism of harness or implementation
            fprintf(stderr, "HARNESS: divergence while replaying a validated prefix (step %d of %zu), fields: %s\n", hr.first_bad, ops.size(), fields_str(dev).c_str());
            std::string pth = write_replay(p, ops, &hr, "prefix divergence", "diverge-" + std::to_string(id) + "-" + std::to_string(s.transitions));
            fprintf(stderr, "  replay: %s\n", pth.c_str());
            ++s.selfcheck_fail; continue;
          }
          if (dev & p.mask) {
            ++s.violations;
            if (s.violations <= 3) {
              std::string what = "model and implementation differ in: " + fields_str(dev & p.mask);
              write_replay(p, ops, &hr, what, "w" + std::to_string(id) + "-" + std::to_string(s.violations));
            }
          } else ++s.foreign;
          continue;  // model state no longer known to be the implementation's state
        }
        if (wsamples.size() < 2 && ops.size() >= 3 && (j % 7) == 0) {
          std::string smp; for (auto& o_ : ops) { smp += op_str(o_); smp += " ; "; } smp += "=> " + outcome_str(last.io);
          wsamples.push_back(smp);
        }
        if (!expand) continue;
        Model next; next.st = n.st; next.guards = guards; next.step(op);
        Rec rec; memset(&rec, 0, sizeof rec); rec.type = 1; rec.n.st = next.st; rec.n.prefix = n.prefix; rec.n.len = (uint8_t)(n.len + 1);
        memcpy(rec.n.hist, n.hist, n.len); rec.n.hist[n.len] = (uint8_t)x;
        bool merge = (int)rec.n.len >= p.du;
        std::string key = next.key();
        // An operation that leaves the model state unchanged (a rejected call, a query-like step) may still have
        // changed hidden implementation state. Such a "stutter" successor is kept as a node of its own - once -
        // so that every operation is also explored right after every such no-op, instead of being merged away.
        if (key == basekey) {
          if (n.stut >= 1) continue;
          rec.n.stut = 1; key += "#stutter"; key.push_back((char)x);
        }
        if (!merge) { key.append((const char*)&rec.n.prefix, sizeof rec.n.prefix); key.append((const char*)rec.n.hist, rec.n.len); key.push_back((char)rec.n.len); }
        rec.h = hash_key(key);
        if (!local.insert(rec.h).second) continue;
        write_all(fd, &rec, sizeof rec);
      }
    }
    fl[id].alive = 0;
    // statistics and text payloads go to a file; a type-2 record closes the stream
    {
      std::ostringstream path; path << tmp_dir << "/w" << id << ".txt";
      std::ofstream f(path.str());
      f << s.transitions << ' ' << s.ops << ' ' << s.fenced << ' ' << s.foreign << ' ' << s.lenient << ' ' << s.violations << ' ' << s.disabled << ' ' << s.selfcheck_fail << ' ' << s.incomplete << '\n';
      f << classes.size() << '\n'; for (auto& c : classes) f << c << '\n';
      f << wsamples.size() << '\n'; for (auto& c : wsamples) f << c << '\n';
    }
    Rec rec; memset(&rec, 0, sizeof rec); rec.type = 2; write_all(fd, &rec, sizeof rec);
    close(fd);
    _exit(0);
  }

  void confirm_crash(const Plan& p, const std::vector<Op>& ops, int sig_or_code) {
    // replay the history in flight alone, twice, before reporting it (the first three of a run; further ones are the same fault
    // seen by other workers and are only counted)
    if (crashes >= 3) { ++violations; ++crashes; return; }
    int fails = 0;
    for (int rep = 0; rep < 2; ++rep) {
      pid_t c = fork();
      if (c == 0) { alarm(HISTORY_WATCHDOG_S); run_history(ops, p.mask, guards, false); _exit(0); }
      int stt; waitpid(c, &stt, 0);
      if (!(WIFEXITED(stt) && WEXITSTATUS(stt) == 0)) ++fails;
    }
    if (fails == 2) {
      ++violations; ++crashes;
      std::string pth = write_replay(p, ops, nullptr, "abnormal termination (sanitizer report, assertion, crash or hang) while executing this history; status " + std::to_string(sig_or_code), "crash-" + std::to_string(++replay_seq));
      replay_files.push_back(pth);
    } else {
      // The worker died in this history, yet the history alone (fresh process) runs cleanly at least once. Every history builds
      // fresh objects and dismantles them, so the only thing a worker carries from one history to the next is the library's own
      // global state (current tracer, reporter, ...): something a previous history left there made this one die (e.g. a
      // destroyed tracer that is still registered). On the reference tree no worker ever dies; this is reported, not ignored.
      ++violations; ++crashes;
      std::string pth = write_replay(p, ops, nullptr, "abnormal termination (status " + std::to_string(sig_or_code) + ") of a worker while executing this history AFTER other histories in the same process; "
                                     "alone it replays cleanly " + std::string(fails == 1 ? "once out of twice" : "twice") + ": state left behind in the library's globals by an earlier history (objects of a history are all destroyed at its end)", "crash-" + std::to_string(++replay_seq));
      replay_files.push_back(pth);
    }
  }

  void run_plan(const Plan& p) {
    std::unordered_set<Hash128, Hash128H> seen;
    std::vector<Node> frontier;
    long plan_states = 0, plan_trans0 = transitions;
    // initial nodes: state after each prefix (the prefix itself is validated as part of every replay)
    for (size_t i = 0; i < p.prefixes.size(); ++i) {
      Model m; m.st = Model::initial(); m.guards = guards; bool ok = true;
      for (auto& op : p.prefixes[i]) { if (!m.enabled(op) || m.fenced(op)) { ok = false; break; } m.step(op); }
      if (!ok) continue;
      Node n; memset(&n, 0, sizeof n); n.st = m.st; n.prefix = (int32_t)i; n.len = 0;
      std::string key = m.key(); key.append((const char*)&n.prefix, sizeof n.prefix);
      if (seen.insert(hash_key(key)).second) { frontier.push_back(n); ++plan_states; }
    }
    Flight* fl = (Flight*)mmap(nullptr, sizeof(Flight) * (size_t)workers, PROT_READ | PROT_WRITE, MAP_SHARED | MAP_ANONYMOUS, -1, 0);
    int depth_done = 0;
    for (int depth = 0; depth < p.dm && !frontier.empty(); ++depth) {
      if (elapsed() > deadline_s) { exhaustive = false; break; }
      bool expand = depth + 1 < p.dm;  // successors of the last level are validated but not stored
      std::vector<Node> next;
      std::vector<pid_t> pids((size_t)workers); std::vector<int> fds((size_t)workers);
      for (int i = 0; i < workers; ++i) {
        int pf[2]; if (pipe(pf) != 0) { perror("pipe"); exit(2); }
        fl[i].node = -1; fl[i].opidx = -1; fl[i].alive = 1;
        pid_t c = fork();
        if (c < 0) { perror("fork"); exit(2); }
        if (c == 0) { close(pf[0]); for (int k = 0; k < i; ++k) close(fds[(size_t)k]); worker(p, frontier, i, pf[1], fl, expand); }
        close(pf[1]); pids[(size_t)i] = c; fds[(size_t)i] = pf[0];
      }
      std::vector<std::string> bufs((size_t)workers); std::vector<bool> done((size_t)workers, false), eof((size_t)workers, false);
      int open_n = workers;
      while (open_n > 0) {
        std::vector<pollfd> pfds;
        for (int i = 0; i < workers; ++i) if (!eof[(size_t)i]) pfds.push_back({fds[(size_t)i], POLLIN, 0});
        if (poll(pfds.data(), (nfds_t)pfds.size(), 1000) < 0) { if (errno == EINTR) continue; perror("poll"); exit(2); }
        for (auto& pf : pfds) {
          if (!(pf.revents & (POLLIN | POLLHUP | POLLERR))) continue;
          int i = 0; while (fds[(size_t)i] != pf.fd) ++i;
          char tmp[1 << 16]; ssize_t k = read(pf.fd, tmp, sizeof tmp);
          if (k > 0) {
            std::string& b = bufs[(size_t)i]; b.append(tmp, (size_t)k);
            size_t off = 0;
            while (b.size() - off >= sizeof(Rec)) {
              Rec rec; memcpy(&rec, b.data() + off, sizeof rec); off += sizeof rec;
              if (rec.type == 2) { done[(size_t)i] = true; continue; }
              if (seen.insert(rec.h).second) { next.push_back(rec.n); ++plan_states; }
            }
            b.erase(0, off);
          } else if (k == 0 || (k < 0 && errno != EINTR && errno != EAGAIN)) { eof[(size_t)i] = true; close(pf.fd); --open_n; }
        }
      }
      bool level_ok = true;
      for (int i = 0; i < workers; ++i) {
        int stt = 0; waitpid(pids[(size_t)i], &stt, 0);
        bool clean = WIFEXITED(stt) && WEXITSTATUS(stt) == 0 && done[(size_t)i];
        if (!clean) {
          level_ok = false;
          int code = WIFSIGNALED(stt) ? 1000 + WTERMSIG(stt) : WEXITSTATUS(stt);
          if (fl[i].node >= 0 && (size_t)fl[i].node < frontier.size()) {
            confirm_crash(p, history_ops(p, frontier[(size_t)fl[i].node], fl[i].opidx), code);
          } else { fprintf(stderr, "HARNESS: worker %d died (status %d) outside any history\n", i, code); ++selfcheck_fail; }
          continue;
        }
        std::ostringstream path; path << tmp_dir << "/w" << i << ".txt";
        std::ifstream f(path.str());
        Stats s; f >> s.transitions >> s.ops >> s.fenced >> s.foreign >> s.lenient >> s.violations >> s.disabled >> s.selfcheck_fail >> s.incomplete;
        if (s.incomplete) level_ok = false;
        transitions += s.transitions; ops += s.ops; fenced += s.fenced; foreign += s.foreign; lenient += s.lenient; violations += s.violations; selfcheck_fail += s.selfcheck_fail;
        size_t nc; f >> nc; std::string line; std::getline(f, line);
        for (size_t c = 0; c < nc; ++c) { std::getline(f, line); outcome_classes.insert(line); }
        size_t ns; f >> ns; std::getline(f, line);
        for (size_t c = 0; c < ns; ++c) { std::getline(f, line); if (samples.size() < 6) samples.push_back(line); }
        for (long v = 1; v <= std::min<long>(3, s.violations); ++v) {
          std::ostringstream rp; rp << replay_dir << '/' << prop << "-w" << i << '-' << v << ".json";
          std::ostringstream np; np << replay_dir << '/' << prop << '-' << p.name << "-d" << depth + 1 << '-' << ++replay_seq << ".json";
          rename(rp.str().c_str(), np.str().c_str());
          replay_files.push_back(np.str());
        }
      }
      if (!level_ok) { exhaustive = false; if (violations == 0) { fprintf(stderr, "[%s %s] plan %s: level %d not completed (deadline or worker failure)\n", prop.c_str(), tier.c_str(), p.name.c_str(), depth + 1); break; } }
      depth_done = depth + 1;
      fprintf(stderr, "[%s %s] plan %s depth %d: frontier %zu -> %zu new states, transitions so far %ld, violations %ld, %.1fs\n", prop.c_str(), tier.c_str(), p.name.c_str(), depth + 1, frontier.size(), next.size(), transitions, violations, elapsed());
      frontier.swap(next);
      if (violations > 0) break;  // breadth-first: the violations found at this depth are the shortest ones
    }
    munmap(fl, sizeof(Flight) * (size_t)workers);
    states += plan_states;
    if (depth_done < p.dm && violations == 0 && !frontier.empty()) exhaustive = false;
    completed_depth = std::max(completed_depth, depth_done);
    std::ostringstream sm; sm << p.name << ": prefixes=" << p.prefixes.size() << " alphabet=" << p.alphabet.size() << " unmerged_depth=" << p.du << " depth_completed=" << depth_done << '/' << p.dm
       << " states=" << plan_states << " transitions=" << (transitions - plan_trans0);
    plan_summaries.push_back(sm.str());
  }
};

}  // namespace hm

using namespace hm;

// Replay files carry the shape descriptors their operations refer to: shape numbers are private to one generated site table,
// so they are re-mapped to the shapes of this binary by value. Returns false if a shape does not exist here.
static bool remap_shapes(const std::string& s, std::vector<Op>& ops) {
  size_t p = s.find("\"shapes\":");
  if (p == std::string::npos) return false;
  size_t end = s.find('}', p);
  std::map<int, int> map_;
  size_t q = p + strlen("\"shapes\":") - 1;
  while ((q = s.find('"', q + 1)) != std::string::npos && q < end) {
    size_t q2 = s.find('"', q + 1); if (q2 == std::string::npos || q2 > end) break;
    std::string key = s.substr(q + 1, q2 - q - 1);
    if (key == "shapes") { q = q2; continue; }
    size_t lb = s.find('[', q2), rb = s.find(']', q2); if (lb == std::string::npos || rb == std::string::npos) break;
    std::string body = s.substr(lb + 1, rb - lb - 1);
    int v[11]; int n = 0; std::string clauses; size_t i = 0;
    while (i < body.size()) {
      if (body[i] == '"') { size_t j = body.find('"', i + 1); clauses = body.substr(i + 1, j - i - 1); i = j + 1; }
      else if (isdigit((unsigned char)body[i]) || body[i] == '-') { size_t j = i + 1; while (j < body.size() && isdigit((unsigned char)body[j])) ++j; if (n < 11) v[n++] = atoi(body.substr(i, j - i).c_str()); i = j; }
      else ++i;
    }
    int found = -1;
    for (int k = 0; k < g_nshapes && n == 11; ++k) {
      const Shape& sh = g_shapes[k];
      if (sh.mock == v[0] && sh.fn == v[1] && sh.mk1 == v[2] && sh.mk2 == v[3] && sh.nwith == v[4] && sh.nse == v[5] && sh.seqar == v[6] && sh.tform == v[7] && sh.tl == v[8] && sh.th == v[9] && sh.act == v[10] && clauses == sh.clauses) { found = k; break; }
    }
    map_[atoi(key.c_str())] = found;
    q = rb;
  }
  for (auto& o : ops) if (o.kind == OP_CREATE || o.kind == OP_MONITOR) {
    auto it = map_.find(o.shape);
    if (it == map_.end() || it->second < 0) return false;
    o.shape = (int16_t)it->second;
  }
  return true;
}

static bool g_replay_unmappable = false;
static std::vector<Op> read_replay_ops(const std::string& path, unsigned* mask) {
  std::ifstream f(path); std::stringstream ss; ss << f.rdbuf(); std::string s = ss.str();
  size_t mk = s.find("\"mask\":"); if (mk != std::string::npos && mask) *mask = (unsigned)strtoul(s.c_str() + mk + 7, nullptr, 10);
  size_t p = s.find("\"ops\":"); std::vector<Op> ops; if (p == std::string::npos) return ops;
  size_t end = s.find("\"readable\"", p);
  std::string body = s.substr(p + 6, end == std::string::npos ? std::string::npos : end - p - 6);
  for (auto& c : body) if (c == '[' || c == ']' || c == ',') c = ' ';
  std::istringstream in(body); Op op;
  while (read_op(in, op)) ops.push_back(op);
  if (!remap_shapes(s, ops)) g_replay_unmappable = true;
  // a site must exist for every (shape, slot) the history uses
  return ops;
}

int main(int argc, char** argv) {
  std::string plan_path, evidence_path, replay_path, prop = "C00", tier = "quick", replay_dir = ".", tmp_dir = "/tmp";
  Guards guards; int workers = 16; double deadline = 1e9; long seed = 0; bool probe = false;
  for (int i = 1; i < argc; ++i) {
    std::string a = argv[i];
    auto nxt = [&]() { if (i + 1 >= argc) { fprintf(stderr, "missing value for %s\n", a.c_str()); exit(2); } return std::string(argv[++i]); };
    if (a == "--plan") plan_path = nxt(); else if (a == "--evidence") evidence_path = nxt(); else if (a == "--replay") replay_path = nxt();
    else if (a == "--probe") { replay_path = nxt(); probe = true; }
    else if (a == "--prop") prop = nxt(); else if (a == "--tier") tier = nxt(); else if (a == "--replay-dir") replay_dir = nxt(); else if (a == "--tmp-dir") tmp_dir = nxt();
    else if (a == "--workers") workers = atoi(nxt().c_str()); else if (a == "--deadline") deadline = atof(nxt().c_str()); else if (a == "--seed") seed = atol(nxt().c_str());
    else if (a == "--guard") { std::string g = nxt(); if (g == "second_monitor") guards.second_monitor = true; else if (g == "orphan_use") guards.orphan_use = true; else { fprintf(stderr, "unknown guard %s\n", g.c_str()); return 2; } }
    else { fprintf(stderr, "unknown argument %s\n", a.c_str()); return 2; }
  }
  if (!replay_path.empty()) {
    unsigned mask = F_ALL; std::vector<Op> ops = read_replay_ops(replay_path, &mask);
    if (ops.empty()) { fprintf(stderr, "no ops in %s\n", replay_path.c_str()); return 2; }
    if (g_replay_unmappable) { fprintf(stderr, "%s refers to expectation shapes that this explorer's site table does not contain (or carries no shape descriptors): not replayable here\n", replay_path.c_str()); return 3; }
    for (auto& o : ops) if ((o.kind == OP_CREATE || o.kind == OP_MONITOR) && !site_exists(o.shape, o.slot)) { fprintf(stderr, "%s needs a creation site (shape %d, slot %d) that this explorer does not contain: not replayable here\n", replay_path.c_str(), (int)o.shape, (int)o.slot); return 3; }
    alarm(60);   // replaying one history takes milliseconds: a minute means the library does not come back
    HistoryResult hr = run_history(ops, mask, Guards{}, true);
    alarm(0);
    for (size_t k = 0; k < hr.steps.size(); ++k) {
      if (probe) continue;
      printf("step %zu: %s\n   model: %s\n   impl : %s\n", k, op_str(ops[k]).c_str(), outcome_str(hr.steps[k].mo).c_str(), outcome_str(hr.steps[k].io).c_str());
      if (hr.steps[k].dev) printf("   DEVIATION in: %s%s\n", fields_str(hr.steps[k].dev).c_str(), (hr.steps[k].dev & mask) ? "" : " (outside this property's mask)");
    }
    if (hr.disabled) { printf("history contains an operation that is not enabled in the model\n"); return 2; }
    bool bad = false; for (auto& s : hr.steps) if (s.dev & mask) bad = true;
    if (!probe) printf(bad ? "RESULT: deviation reproduced\n" : "RESULT: no deviation within this property's mask\n");
    return bad ? 1 : 0;
  }
  if (plan_path.empty()) { fprintf(stderr, "usage: histmc --plan FILE --prop ID --tier T --evidence FILE --replay-dir DIR --tmp-dir DIR | --replay FILE\n"); return 2; }
  std::vector<Plan> plans = read_plans(plan_path);
  Explorer ex; ex.prop = prop; ex.tier = tier; ex.replay_dir = replay_dir; ex.tmp_dir = tmp_dir; ex.guards = guards; ex.workers = workers; ex.deadline_s = deadline;
  for (auto& p : plans) { if (ex.violations) break; ex.run_plan(p); }
  double wall = ex.elapsed();
  if (ex.selfcheck_fail) { fprintf(stderr, "infrastructure errors: %ld\n", ex.selfcheck_fail); }
  if (!evidence_path.empty()) {
    std::ofstream f(evidence_path);
    f << "{\n \"property_id\": \"" << prop << "\",\n \"tier\": \"" << tier << "\",\n \"seed\": " << seed << ",\n \"level\": \"model_checking\",\n \"coverage\": {\n"
      << "  \"states\": " << ex.states << ",\n  \"transitions\": " << ex.transitions << ",\n  \"traces_validated_against_impl\": " << ex.transitions << ",\n"
      << "  \"library_operations_executed\": " << ex.ops << ",\n  \"distinct_outcome_classes\": " << ex.outcome_classes.size() << ",\n  \"max_depth_completed\": " << ex.completed_depth << ",\n"
      << "  \"fenced_transitions\": " << ex.fenced << ",\n  \"deviations_outside_mask_not_expanded\": " << ex.foreign << ",\n  \"leniency_hits\": " << ex.lenient << ",\n"
      << "  \"crashes\": " << ex.crashes << ",\n  \"exhaustive\": " << (ex.exhaustive ? "true" : "false") << ",\n  \"plans\": [";
    for (size_t i = 0; i < ex.plan_summaries.size(); ++i) f << (i ? ", " : "") << '"' << json_escape(ex.plan_summaries[i]) << '"';
    f << "],\n  \"outcome_classes\": [";
    { size_t i = 0; for (auto& c : ex.outcome_classes) { if (i >= 40) break; f << (i++ ? ", " : "") << '"' << json_escape(c) << '"'; } }
    f << "],\n  \"samples\": [";
    if (ex.samples.empty()) ex.samples.push_back("(no sample recorded)");
    for (size_t i = 0; i < ex.samples.size(); ++i) f << (i ? ", " : "") << "\n   \"" << json_escape(ex.samples[i]) << '"';
    f << "\n  ],\n  \"rule\": \"breadth-first over reference-model states; every transition = one history replayed op by op on real trompeloeil objects and compared with the model under the property's field mask\"\n },\n"
      << " \"assumptions\": [\"reference model (engines/histmc/model.hpp) is the reading of the property statements\", \"bounds: see plans\", \"merged exploration assumes equal model states have equal implementation futures beyond the unmerged depth\"],\n"
      << " \"wall_s\": " << wall << ",\n \"violations\": " << ex.violations << "\n}\n";
  }
  { size_t shown = 0; for (auto& r : ex.replay_files) { if (shown++ < 5) printf("VIOLATION property=%s replay=%s\n", prop.c_str(), r.c_str()); else remove(r.c_str()); } }
  if (ex.violations && ex.replay_files.empty()) printf("VIOLATION property=%s replay=%s\n", prop.c_str(), replay_dir.c_str());
  fprintf(stderr, "[%s %s] states=%ld transitions=%ld ops=%ld classes=%zu fenced=%ld foreign=%ld lenient=%ld violations=%ld exhaustive=%d wall=%.1fs\n", prop.c_str(), tier.c_str(), ex.states, ex.transitions, ex.ops, ex.outcome_classes.size(), ex.fenced, ex.foreign, ex.lenient, ex.violations, (int)ex.exhaustive, wall);
  if (ex.violations) return 1;
  if (ex.selfcheck_fail) return 2;
  return 0;
}
