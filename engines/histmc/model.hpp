// Reference ("spec") model of trompeloeil's observable behaviour, DESIGN.md appendix A.
// Deliberately boring: fixed arrays, integer ids, no intrusive lists. It follows the
// property STATEMENTS, not the implementation.
#pragma once
#include "hm.hpp"
#include <algorithm>
#include <sstream>

namespace hm {

// known-finding guards (armed by the explorer after the finding's minimal history reproduced)
struct Guards {
  bool second_monitor = false;   // D9: a second live monitor on one watched object
  bool orphan_use = false;       // D10: operation consulting a sequence object that has been destroyed
};

struct Model {
  MState st;
  Guards guards;

  static MState initial() {
    MState s;
    std::memset(&s, 0, sizeof s);
    for (int i = 0; i < NSLOT; ++i) { s.e[i].seqs[0] = s.e[i].seqs[1] = -1; }
    for (int q = 0; q < NSEQ; ++q) { s.s[q].alive = 1; for (auto& p : s.s[q].pend) p = -1; }
    s.obj_alive[0] = s.obj_alive[1] = s.obj_alive[2] = 1;
    s.obj_alive[3] = 0;
    return s;
  }

  static void bounds_of(const Shape& sh, const Op& op, int& lo, int& hi) {
    switch (sh.tform) {
      case TF_RT: lo = op.lo; hi = op.hi; break;
      case TF_RT1: lo = hi = op.lo; break;
      case TF_DEFAULT: lo = 1; hi = 1; break;
      case TF_N: lo = hi = sh.tl; break;
      case TF_LH: lo = sh.tl; hi = sh.th; break;
      case TF_ATLEAST: lo = sh.tl; hi = INF; break;
      case TF_ATMOST: lo = 0; hi = sh.tl; break;
      case TF_ALLOW: lo = 0; hi = INF; break;
      case TF_FORBID: lo = 0; hi = 0; break;
      default: lo = hi = 1;
    }
  }
  static bool obj_kind_ok(int mock, int obj) { return mock == MOCK_M ? (obj == 0 || obj == 1) : (obj == 2 || obj == 3); }

  bool watched_has_monitor(int w) const {
    for (auto& e : st.e) if (e.alive && e.is_monitor && e.obj == w && !e.died && e.hooked) return true;
    return false;
  }

  bool enabled(const Op& op) const {
    switch (op.kind) {
      case OP_CREATE: {
        const Shape& sh = g_shapes[op.shape];
        if (st.e[op.slot].alive) return false;
        if (!obj_kind_ok(sh.mock, op.obj) || !st.obj_alive[op.obj]) return false;
        if (sh.seqar >= 1 && !st.s[op.s1].alive) return false;
        if (sh.seqar >= 2 && (!st.s[op.s2].alive || op.s1 == op.s2)) return false;
        return true;
      }
      case OP_RELEASE: return st.e[op.slot].alive;
      case OP_CALL: return st.obj_alive[op.obj];
      case OP_DESTROY_MOCK: return st.obj_alive[op.obj];
      case OP_MOVE_MOCK: return op.obj >= 2 && op.k1 >= 2 && op.obj != op.k1 && st.obj_alive[op.obj] && !st.obj_alive[op.k1];
      case OP_ASSIGN_SEQ: if (op.k1 >= 1) return op.s1 != op.s2 && st.s[op.s1].alive && st.s[op.s2].alive;  // fall through
      case OP_DESTROY_SEQ: case OP_MOVE_SEQ: return st.s[op.s1].alive;
      case OP_NEW_WATCHED: return !st.wat_alive[op.obj];
      case OP_DELETE_WATCHED: return st.wat_alive[op.obj];
      case OP_COPY_WATCHED: case OP_MOVECONS_WATCHED: return st.wat_alive[op.obj] && !st.wat_alive[op.k1] && op.obj != op.k1;
      case OP_ASSIGN_WATCHED: case OP_MOVEASSIGN_WATCHED: return st.wat_alive[op.obj] && st.wat_alive[op.k1] && op.obj != op.k1;
      case OP_MONITOR: {
        const Shape& sh = g_shapes[op.shape];
        if (st.e[op.slot].alive || !st.wat_alive[op.obj]) return false;
        if (sh.seqar >= 1 && !st.s[op.s1].alive) return false;
        if (sh.seqar >= 2 && (!st.s[op.s2].alive || op.s1 == op.s2)) return false;
        return true;
      }
      case OP_PUSH_TRACER: return st.ntracer < NTRC;
      case OP_POP_TRACER: return st.ntracer > 0;
      case OP_SET_REPORTER: return true;
      case OP_ARM_REPORTER: {
        // not while an end-of-life report is pending whose presence the statements leave open (see eol_report)
        for (auto& e : st.e) if (e.alive && !e.is_monitor && e.soft_named && !e.reported) return false;
        return st.armed == 0 && st.obj_alive[op.obj];
      }
      case OP_ARM_OK: return st.armed_ok == 0;
    }
    return false;
  }

  // transitions that a listed known finding describes: not executed, not extended
  bool fenced(const Op& op) const {
    if (guards.second_monitor && op.kind == OP_MONITOR && watched_has_monitor(op.obj)) return true;
    if (guards.orphan_use) {
      if (op.kind == OP_CALL)
        for (auto& e : st.e) if (e.alive && !e.is_monitor && e.hooked && !e.saturated && e.orphan && e.obj == op.obj) return true;
      if (op.kind == OP_DELETE_WATCHED)
        for (auto& e : st.e) if (e.alive && e.is_monitor && e.orphan && e.obj == op.obj && !e.died) return true;
    }
    return false;
  }

  // ---------- helpers ----------
  bool satisfied(const MExp& e) const { return e.is_monitor ? e.died : e.count >= e.lo; }
  bool in_seq(const MExp& e, int q) const { for (int i = 0; i < e.nseq; ++i) if (e.seqs[i] == q) return true; return false; }
  void seq_erase(int q, int slot) {
    MSeq& s = st.s[q];
    int w = 0;
    for (int i = 0; i < s.n; ++i) if (s.pend[i] != slot) s.pend[w++] = s.pend[i];
    for (int i = w; i < NSLOT; ++i) s.pend[i] = -1;
    s.n = (uint8_t)w;
  }
  void seq_retire_before(int q, int slot) {
    MSeq& s = st.s[q];
    int pos = -1;
    for (int i = 0; i < s.n; ++i) if (s.pend[i] == slot) { pos = i; break; }
    if (pos <= 0) return;
    int w = 0;
    for (int i = pos; i < s.n; ++i) s.pend[w++] = s.pend[i];
    for (int i = w; i < NSLOT; ++i) s.pend[i] = -1;
    s.n = (uint8_t)w;
  }
  // cost in one sequence: INF if passed / blocked / sequence gone
  int cost_in(int slot, int q) const {
    const MSeq& s = st.s[q];
    if (!s.alive) return -1;
    for (int i = 0; i < s.n; ++i) {
      if (s.pend[i] == slot) return i;
      if (!satisfied(st.e[s.pend[i]])) return -1;
    }
    return -1;
  }
  int cost(int slot) const {  // -1 = INF
    const MExp& e = st.e[slot];
    int worst = 0;
    for (int i = 0; i < e.nseq; ++i) { int c = cost_in(slot, e.seqs[i]); if (c < 0) return -1; worst = std::max(worst, c); }
    return worst;
  }
  static bool mk_match(int mk, int k, int a) {
    switch (mk) { case MK_ANY: case MK_ANYM: return true; case MK_EQ: case MK_VAL: return a == k; case MK_LT: return a < k; case MK_NE: return a != k; case MK_GE: return a >= k; }
    return false;
  }
  static bool with_eval(int mode, int a) {
    switch (mode) { case 0: return true; case 1: return false; case 2: return a != 2; case 3: return a >= 1; }
    return true;
  }
  bool params_match(const MExp& e, int a1, int a2, bool* p1 = nullptr, bool* p2 = nullptr) const {
    const Shape& sh = g_shapes[e.shape];
    bool m1 = sh.fn == Z0 ? true : mk_match(sh.mk1, e.k1, a1);
    bool m2 = sh.fn == F2 ? mk_match(sh.mk2, e.k2, a2) : true;
    if (p1) *p1 = m1;
    if (p2) *p2 = m2;
    return m1 && m2;
  }
  int first_failing_with(const MExp& e, int a1) const {
    const Shape& sh = g_shapes[e.shape];
    for (int i = 0; i < sh.nwith; ++i) if (!with_eval(e.wmode[i], a1)) return i;
    return -1;
  }
  bool matches(const MExp& e, int a1, int a2) const { return params_match(e, a1, a2) && first_failing_with(e, a1) < 0; }

  std::vector<int> active_list(int obj, int fn) const {  // newest first
    std::vector<int> v;
    for (int i = 0; i < NSLOT; ++i) { auto& e = st.e[i]; if (e.alive && !e.is_monitor && e.hooked && !e.saturated && e.obj == obj && e.fn == fn) v.push_back(i); }
    std::sort(v.begin(), v.end(), [&](int a, int b) { return st.e[a].birth > st.e[b].birth; });
    return v;
  }
  std::vector<int> saturated_list(int obj, int fn) const {  // in order of saturation
    std::vector<int> v;
    for (int i = 0; i < NSLOT; ++i) { auto& e = st.e[i]; if (e.alive && !e.is_monitor && e.hooked && e.saturated && e.obj == obj && e.fn == fn) v.push_back(i); }
    std::sort(v.begin(), v.end(), [&](int a, int b) { return st.e[a].satstamp < st.e[b].satstamp; });
    return v;
  }
  static std::string args_str(int fn, int a1, int a2) {
    if (fn == Z0) return "";
    std::ostringstream o; o << (int)a1; if (fn == F2) o << ',' << (int)a2; return o.str();
  }
  void soft_name_around(int slot) {
    MExp& c = st.e[slot];
    c.soft_named = 1;
    for (int i = 0; i < c.nseq; ++i) { const MSeq& s = st.s[c.seqs[i]]; for (int j = 0; j < s.n; ++j) st.e[s.pend[j]].soft_named = 1; }
  }

  bool reentry = false;   // transient: inside the call a re-entrant tracer makes
  // status: 0 returned normally, 1 exception of the expectation propagates, 2 fatal report propagates
  int do_call(int obj, int fn, int a1, int a2, Outcome& o, bool top, std::string* result_out = nullptr) {
    std::vector<int> act = active_list(obj, fn);
    int chosen = -1, best = -1;
    for (int s : act) {
      if (!matches(st.e[s], a1, a2)) continue;
      int c = cost(s);
      if (c == 0) { chosen = s; best = 0; break; }
      if (chosen < 0 || (c >= 0 && (best < 0 || c < best))) { chosen = s; best = c; }
    }
    std::string args = args_str(fn, a1, a2);
    if (chosen < 0) {
      Report r; r.fatal = true; r.kind = R_NOMATCH; r.slot = -1; r.gen = st.repgen;
      std::ostringstream d; d << "fn=" << fn << " args=" << args << ' ';
      std::vector<int> sat = saturated_list(obj, fn), satm;
      for (int s : sat) if (matches(st.e[s], a1, a2)) satm.push_back(s);
      if (!satm.empty()) {
        std::sort(satm.begin(), satm.end());
        d << "sat{"; for (int s : satm) d << s << ','; d << '}';
      } else {
        d << "tried[";
        for (int s : act) {
          bool p1, p2; d << s << ':';
          if (!params_match(st.e[s], a1, a2, &p1, &p2)) { if (!p1) d << "p1"; if (!p2) d << "p2"; }
          else d << 'W' << first_failing_with(st.e[s], a1);
          d << ';';
          st.e[s].reported = 1;
        }
        d << ']';
      }
      r.detail = d.str(); o.reps.push_back(r);
      if (top) o.kind = OK_NOMATCH;
      return 2;
    }
    MExp& c = st.e[chosen];
    const Shape& sh = g_shapes[c.shape];
    std::string tr_prefix;
    bool tracing = st.ntracer > 0;
    const int tidx = st.ntracer - 1;   // the tracer in effect when the call starts receives its record
    bool pushes_tracer = false;
    for (int i = 0; i < sh.nse; ++i) if (c.semode[i] == 4) pushes_tracer = true;
    // '~': the statement does not say which tracer gets the record of a call during which a new tracer is constructed (tracer index not compared)
    if (tracing) { std::ostringstream t; t << (pushes_tracer ? "~" : "") << 'T' << (int)(st.ntracer - 1) << ':' << chosen << ":args=" << args << ':'; tr_prefix = t.str(); }
    else if (pushes_tracer) { std::ostringstream t; t << "?~T0:" << chosen << ":args=" << args << ':'; tr_prefix = t.str(); tracing = true; }
    if (c.hi == 0) {
      Report r; r.fatal = true; r.kind = R_FORBIDDEN; r.slot = chosen; r.gen = st.repgen; r.detail = "args=" + args;
      o.reps.push_back(r); c.reported = 1;
      if (tracing) o.traces.push_back("?" + tr_prefix + "threw unknown exception");
      if (top) o.kind = OK_FORBIDDEN;
      return 2;
    }
    if (best < 0) {
      Report r; r.fatal = true; r.kind = R_SEQMIS; r.slot = chosen; r.gen = st.repgen;
      o.reps.push_back(r); soft_name_around(chosen); st.armed = 0;   // the harness's armed reporter stands down at a sequence violation
      if (tracing) o.traces.push_back("?" + tr_prefix + "threw unknown exception");
      if (top) o.kind = OK_SEQMIS;
      return 2;
    }
    // accepted
    c.count++;
    for (int i = 0; i < c.nseq; ++i) seq_retire_before(c.seqs[i], chosen);
    if (c.hi != INF && c.count == c.hi) {
      c.saturated = 1; c.satstamp = ++st.clock;
      for (int i = 0; i < c.nseq; ++i) seq_erase(c.seqs[i], chosen);
    }
    { std::ostringstream k; k << (int)st.okgen << ':' << chosen; o.oks.push_back(k.str()); }
    if (top) { o.handler = chosen; }
    int status = 0; std::string result;
    if (st.armed_ok == 10) {
      // the OK callback (user code) calls the same mock function again, once: the bookkeeping of the reported call is complete by then;
      // a fatal report of that inner call leaves the reporter by exception and ends the outer call before its actions
      st.armed_ok = 0;
      std::string nres; int ns = do_call(obj, fn, a1, a2, o, false, &nres);
      if (ns != 0) { status = ns; result = ns == 2 ? "nested-fatal" : nres; }
    } else if (st.armed_ok) { st.repgen = st.okgen = (uint8_t)(st.armed_ok - 1); st.armed_ok = 0; }  // set_reporter called from inside the OK callback
    uint8_t semode[3], actmode = c.actmode; std::memcpy(semode, c.semode, 3);
    for (int i = 0; i < sh.nse && status == 0; ++i) {
      { std::ostringstream k; k << 'S' << chosen << '.' << i; o.clog.push_back(k.str()); }
      if (semode[i] == 1) { status = 1; std::ostringstream k; k << "se:" << chosen << '.' << i; result = k.str(); }
      else if (semode[i] == 4) { if (st.ntracer < NTRC) st.tracer_kind[st.ntracer++] = 0; }  // a tracer whose lifetime begins inside the call
      else if (semode[i] == 5) { if (st.obj_alive[obj]) destroy_mock_inline(obj, o); }          // the side effect destroys the mock object ("delete this"): the remaining clauses still run
      else if (semode[i] == 2 || semode[i] == 3) {
        int nfn = semode[i] == 2 ? (int)G1 : (int)F1, na = semode[i] == 2 ? a1 : a1 + 1;
        if (semode[i] == 3 && a1 >= 2) continue;
        std::string nres;
        int ns = do_call(obj, nfn, na, 0, o, false, &nres);
        if (ns != 0) { status = ns; result = ns == 2 ? "nested-fatal" : nres; }
      }
    }
    if (status == 0) {
      std::ostringstream k;
      switch (sh.act) {
        case ACT_RET: { std::ostringstream l; l << 'R' << chosen; o.clog.push_back(l.str()); }
          if (actmode == 1) { status = 1; k << "rx:" << chosen; } else k << "r:" << 100 + chosen; break;
        case ACT_RETREF: { std::ostringstream l; l << 'R' << chosen; o.clog.push_back(l.str()); } k << "ref:" << chosen; break;
        case ACT_THROW_INT: { std::ostringstream l; l << 'R' << chosen; o.clog.push_back(l.str()); } status = 1; k << "t:" << chosen; break;
        case ACT_THROW_STD: { std::ostringstream l; l << 'R' << chosen; o.clog.push_back(l.str()); } status = 1; k << "e:t" << chosen; break;
        case ACT_NONE: k << "void"; break;
        case ACT_RETCAP: k << "cref:" << 700 + chosen; break;
        case ACT_RETSTR: { std::ostringstream l; l << 'R' << chosen; o.clog.push_back(l.str()); } k << "s:str" << chosen; break;
      }
      result = k.str();
    }
    if (tracing) {
      std::string t = tr_prefix;
      if (status == 0) { if (sh.act == ACT_RET) { std::ostringstream k; k << "-> " << 100 + chosen; t += k.str(); } else if (sh.act == ACT_RETREF) { std::ostringstream k; k << "-> " << 500 + chosen; t += k.str(); } else if (sh.act == ACT_RETCAP) { std::ostringstream k; k << "-> " << 700 + chosen; t += k.str(); } else if (sh.act == ACT_RETSTR) { std::ostringstream k; k << "-> str" << chosen; t += k.str(); } }
      else if (result.compare(0, 2, "e:") == 0) t += "threw exception: what() = " + result.substr(2);
      else t += "threw unknown exception";
      o.traces.push_back(t);
      // a tracer of kind 2 (user code) makes a mock call of its own for every record it receives - obj0.g(1) - which is traced like any other
      if (tidx >= 0 && st.tracer_kind[tidx] == 2 && !reentry && st.obj_alive[0]) { reentry = true; std::string nres; do_call(0, G1, 1, 0, o, false, &nres); reentry = false; }
    }
    if (top) { o.retv = result; o.kind = status == 0 ? OK_ACCEPT : status == 1 ? OK_THROWN : OK_NESTED_FATAL; }
    if (result_out) *result_out = result;
    return status;
  }

  void eol_report(int slot, uint8_t kind, Outcome& o) {
    MExp& e = st.e[slot];
    if (e.is_monitor || !e.hooked || e.reported || e.count >= e.lo) return;
    Report r; r.fatal = false; r.kind = kind; r.slot = slot; r.gen = st.repgen; r.optional = e.soft_named;
    std::ostringstream d; d << "L=" << (int)e.lo << " c=" << (int)e.count;
    r.detail = d.str(); o.reps.push_back(r);
    e.reported = 1;
    if (!r.optional) nonfatal_delivered(o);
  }
  void destroy_mock_inline(int obj, Outcome& o) {
    st.obj_alive[obj] = 0;
    for (int fn = 0; fn < NFN; ++fn) {
      for (int s : active_list(obj, fn)) { eol_report(s, R_PENDING_DESTROYED, o); }
      for (int s : saturated_list(obj, fn)) { eol_report(s, R_PENDING_DESTROYED, o); }
    }
    for (auto& e : st.e) if (e.alive && !e.is_monitor && e.obj == obj) e.hooked = 0;
  }
  // a non-fatal report has just been handed to the reporter: an armed reporter now destroys its mock object (once)
  void nonfatal_delivered(Outcome& o) {
    if (!st.armed) return;
    int obj = st.armed - 1; st.armed = 0;
    if (st.obj_alive[obj]) destroy_mock_inline(obj, o);
  }

  void observe(Outcome& o) const {
    std::ostringstream q;
    for (int i = 0; i < NSLOT; ++i) {
      auto& e = st.e[i];
      if (!e.alive) continue;
      bool sat = satisfied(e), satur = e.is_monitor ? (bool)e.died : (e.hi != INF && e.count == e.hi);
      q << i << ':' << sat << satur << ' ';
    }
    o.qexp = q.str();
    std::ostringstream c;
    for (int s = 0; s < NSEQ; ++s) {
      if (!st.s[s].alive) { c << '-'; continue; }
      bool comp = true;
      for (int j = 0; j < st.s[s].n; ++j) if (!satisfied(st.e[st.s[s].pend[j]])) comp = false;
      c << comp;
    }
    o.qseq = c.str();
  }

  void clear_slot(int slot) {
    std::memset(&st.e[slot], 0, sizeof(MExp));
    st.e[slot].seqs[0] = st.e[slot].seqs[1] = -1;
  }

  Outcome step(const Op& op) {
    Outcome o;
    switch (op.kind) {
      case OP_CREATE: {
        const Shape& sh = g_shapes[op.shape];
        int lo, hi; bounds_of(sh, op, lo, hi);
        if (sh.tform == TF_RT && hi != INF && lo > hi) { o.kind = OK_LOGIC_ERROR; break; }
        MExp& e = st.e[op.slot];
        clear_slot(op.slot);
        e.alive = 1; e.obj = (uint8_t)op.obj; e.fn = (uint8_t)sh.fn; e.shape = op.shape; e.k1 = op.k1; e.k2 = op.k2;
        e.lo = (uint8_t)lo; e.hi = (uint8_t)hi; e.hooked = 1; e.birth = ++st.clock;
        e.nseq = (uint8_t)sh.seqar;
        if (sh.seqar >= 1) e.seqs[0] = op.s1;
        if (sh.seqar >= 2) e.seqs[1] = op.s2;
        for (int i = 0; i < e.nseq; ++i) { MSeq& s = st.s[e.seqs[i]]; s.pend[s.n++] = op.slot; }
        std::memcpy(e.wmode, op.wmode, 3); std::memcpy(e.semode, op.semode, 3); e.actmode = op.actmode;
        if (hi == 0) { /* forbidding: always satisfied and saturated, stays in the active list */ }
        break;
      }
      case OP_RELEASE: {
        MExp& e = st.e[op.slot];
        if (e.is_monitor) {
          if (!e.died && st.wat_alive[e.obj] && e.hooked) {
            Report r; r.fatal = false; r.kind = R_STILL_ALIVE; r.slot = op.slot; r.gen = st.repgen; o.reps.push_back(r);
            nonfatal_delivered(o);
          }
        } else {
          eol_report(op.slot, R_UNFULFILLED, o);
        }
        for (int i = 0; i < e.nseq; ++i) if (st.s[e.seqs[i]].alive) seq_erase(e.seqs[i], op.slot);
        clear_slot(op.slot);
        break;
      }
      case OP_CALL: do_call(op.obj, op.fn, op.a1, op.a2, o, true); break;
      case OP_DESTROY_MOCK: destroy_mock_inline(op.obj, o); break;
      case OP_ARM_REPORTER: st.armed = (uint8_t)(1 + op.obj); break;
      case OP_ARM_OK: st.armed_ok = (uint8_t)(1 + op.k1); break;
      case OP_MOVE_MOCK: {
        for (auto& e : st.e) if (e.alive && !e.is_monitor && e.hooked && e.obj == op.obj) e.obj = (uint8_t)op.k1;
        st.obj_alive[op.k1] = 1;
        break;
      }
      case OP_DESTROY_SEQ: case OP_ASSIGN_SEQ: {
        MSeq& s = st.s[op.s1];
        if (s.n > 0) {
          Report r; r.fatal = false; r.kind = R_SEQ_TEARDOWN; r.slot = -1; r.gen = st.repgen;
          std::ostringstream d; d << '[';
          for (int j = 0; j < s.n; ++j) d << (int)s.pend[j] << ',';
          d << ']'; r.detail = d.str(); o.reps.push_back(r);
          s.n = 0; for (auto& p : s.pend) p = -1;
          nonfatal_delivered(o);
        }
        for (auto& e : st.e) if (e.alive && in_seq(e, op.s1)) e.orphan |= (uint8_t)(1u << op.s1);
        // after assignment from a temporary the name designates a fresh, empty sequence; after assignment from another live sequence
        // object (k1 == 1) the overwritten sequence is gone for good: the object now IS sequence s2 (the harness renames it), and the
        // moved-from source object merely stays alive
        s.alive = op.kind == OP_ASSIGN_SEQ && op.k1 == 0; s.n = 0; for (auto& p : s.pend) p = -1;
        break;
      }
      case OP_MOVE_SEQ: break;
      case OP_NEW_WATCHED: st.wat_alive[op.obj] = 1; break;
      case OP_COPY_WATCHED: case OP_MOVECONS_WATCHED: st.wat_alive[op.k1] = 1; break;
      case OP_ASSIGN_WATCHED: case OP_MOVEASSIGN_WATCHED: break;
      case OP_DELETE_WATCHED: {
        std::vector<int> mons;
        for (int i = 0; i < NSLOT; ++i) { auto& e = st.e[i]; if (e.alive && e.is_monitor && e.obj == op.obj && !e.died && e.hooked) mons.push_back(i); }
        if (mons.empty()) {
          Report r; r.fatal = false; r.kind = R_UNEXPECTED_DESTRUCTION; r.slot = -1; r.gen = st.repgen; o.reps.push_back(r);
          nonfatal_delivered(o);
        }
        std::sort(mons.begin(), mons.end(), [&](int a, int b) { return st.e[a].birth > st.e[b].birth; });
        for (int m : mons) {
          MExp& e = st.e[m];
          bool named = false;
          for (int i = 0; i < e.nseq; ++i) {
            if (e.orphan & (1u << e.seqs[i])) {
              // its sequence object is gone: only memory safety is demanded (C14), a mismatch report is tolerated
              Report r; r.fatal = false; r.kind = R_SEQMIS; r.slot = m; r.gen = st.repgen; r.optional = true; o.reps.push_back(r);
              continue;
            }
            if (cost_in(m, e.seqs[i]) < 0) {
              Report r; r.fatal = false; r.kind = R_SEQMIS; r.slot = m; r.gen = st.repgen; o.reps.push_back(r); named = true;
              nonfatal_delivered(o);
            }
          }
          if (named) soft_name_around(m);
          e.died = 1; e.count = 1;
          // the destruction has happened: what was before it is passed, and the (now saturated) monitor leaves its sequences
          for (int i = 0; i < e.nseq; ++i) if (st.s[e.seqs[i]].alive) { seq_retire_before(e.seqs[i], m); seq_erase(e.seqs[i], m); }
        }
        st.wat_alive[op.obj] = 0;
        break;
      }
      case OP_MONITOR: {
        const Shape& sh = g_shapes[op.shape];
        clear_slot(op.slot);
        MExp& e = st.e[op.slot];
        e.alive = 1; e.is_monitor = 1; e.obj = (uint8_t)op.obj; e.shape = op.shape; e.lo = 1; e.hi = 1; e.hooked = 1; e.birth = ++st.clock;
        e.nseq = (uint8_t)sh.seqar;
        if (sh.seqar >= 1) e.seqs[0] = op.s1;
        if (sh.seqar >= 2) e.seqs[1] = op.s2;
        for (int i = 0; i < e.nseq; ++i) { MSeq& s = st.s[e.seqs[i]]; s.pend[s.n++] = op.slot; }
        break;
      }
      case OP_PUSH_TRACER: st.tracer_kind[st.ntracer++] = (uint8_t)op.k1; break;
      case OP_POP_TRACER: st.tracer_kind[--st.ntracer] = 0; break;
      case OP_SET_REPORTER: {
        std::ostringstream m; m << "prev=" << (int)st.repgen;
        if (op.k2) m << ',' << (int)st.okgen;
        o.misc = m.str();
        st.repgen = (uint8_t)op.k1;
        if (op.k2) st.okgen = (uint8_t)op.k1;
        break;
      }
    }
    observe(o);
    return o;
  }

  // ---- micro-steps (engine E2): the atomic steps of an expectation statement, C12 ----
  void micro_begin(int slot, int shape, int obj, int k1, int lo, int hi) {
    const Shape& sh = g_shapes[shape];
    clear_slot(slot);
    MExp& e = st.e[slot];
    e.alive = 1; e.is_monitor = sh.mock == MOCK_WATCHED; e.obj = (uint8_t)obj; e.fn = (uint8_t)sh.fn; e.shape = (int16_t)shape; e.k1 = (int8_t)k1;
    e.lo = (uint8_t)lo; e.hi = (uint8_t)hi; e.hooked = 0;
  }
  void micro_register(int slot, int q) { MExp& e = st.e[slot]; e.seqs[e.nseq++] = (int8_t)q; MSeq& s = st.s[q]; s.pend[s.n++] = (int8_t)slot; }
  void micro_bounds(int slot, int lo, int hi) { st.e[slot].lo = (uint8_t)lo; st.e[slot].hi = (uint8_t)hi; }
  void micro_hook(int slot) { st.e[slot].hooked = 1; st.e[slot].birth = ++st.clock; }
  // one list of one mock function is decommissioned (mock destruction is not atomic as a whole)
  void micro_decommission(int obj, int fn, bool saturated, Outcome& o) {
    std::vector<int> l = saturated ? saturated_list(obj, fn) : active_list(obj, fn);
    for (int s : l) { eol_report(s, R_PENDING_DESTROYED, o); st.e[s].hooked = 0; }
  }

  // canonical key of the state: creation / saturation stamps replaced by ranks
  std::string key() const {
    MState c = st;
    std::vector<uint16_t> stamps;
    for (auto& e : c.e) if (e.alive) { stamps.push_back(e.birth); if (e.saturated) stamps.push_back(e.satstamp); }
    std::sort(stamps.begin(), stamps.end());
    auto rank = [&](uint16_t v) { return (uint16_t)(std::lower_bound(stamps.begin(), stamps.end(), v) - stamps.begin() + 1); };
    for (auto& e : c.e) if (e.alive) { e.birth = rank(e.birth); e.satstamp = e.saturated ? rank(e.satstamp) : 0; }
    c.clock = 0;
    return std::string(reinterpret_cast<const char*>(&c), sizeof c);
  }

  // declarative invariants of the statements, evaluated on the model itself (harness self-check)
  std::string selfcheck() const {
    for (int i = 0; i < NSLOT; ++i) {
      auto& e = st.e[i];
      if (!e.alive) continue;
      if (!e.is_monitor) {
        if (e.hi != INF && e.count > e.hi) return "count exceeds upper bound";
        if (e.hi != 0 && e.saturated != (e.hi != INF && e.count == e.hi)) return "saturated flag inconsistent";
      } else if (e.died && e.count != 1) return "died monitor without count";
      for (int q = 0; q < NSEQ; ++q) {
        int occ = 0;
        for (int j = 0; j < st.s[q].n; ++j) if (st.s[q].pend[j] == i) ++occ;
        if (occ > 1) return "duplicate pending entry";
        if (occ && !in_seq(e, q)) return "pending in a sequence it does not name";
        if (occ && e.saturated && !e.is_monitor) return "saturated expectation still pending";
      }
    }
    for (int q = 0; q < NSEQ; ++q) for (int j = 0; j < st.s[q].n; ++j) if (!st.e[st.s[q].pend[j]].alive) return "dead expectation pending";
    return "";
  }
};

}  // namespace hm
