// Companion enumeration of C03 / C07 (see spell.hpp): all spellings x all call sequences over {1,2} up to a length bound,
// compared with a reference evaluator that knows only the denoted expectation: bounds [L,H], condition, lifetime = the scope.
#include "spell.hpp"

namespace sp {
en::Recorder R;
std::vector<std::string> g_log;
static std::string g_cur;   // events of the operation in progress

int hit(int who) { g_cur += " hit" + std::to_string(who); return 0; }
void mark(const char* what) { g_log.push_back(std::string(what) + ":" + g_cur); g_cur.clear(); }
static void flush(const std::string& head) { g_log.push_back(head + g_cur); g_cur.clear(); }
void call_v(M& m, int a) {
  std::string h = "v(" + std::to_string(a) + ")";
  try { m.v(a); h += " ok"; } catch (Fatal&) { h += " fatal"; }
  flush(h + ":");
}
void call_f(M& m, int a) {
  std::string h = "f(" + std::to_string(a) + ")";
  try { int r = m.f(a); h += " ->" + std::to_string(r); } catch (Fatal&) { h += " fatal"; }
  flush(h + ":");
}
static const char* kind_of(const std::string& msg) {
  if (msg.rfind("No match for call", 0) == 0) return "nomatch";
  if (msg.rfind("Match of forbidden call", 0) == 0) return "forbidden";
  if (msg.rfind("Unfulfilled expectation", 0) == 0) return "unfulfilled";
  if (msg.rfind("Unexpected destruction of", 0) == 0) return "unexpected_destruction";
  if (msg.find("is still alive") != std::string::npos) return "still_alive";
  return "other";
}

// the reference: one expectation [lo,hi] with condition (a != 2 if has_with) stacked over an ALLOW_CALL on the same function,
// alive until the end of the scope
static std::vector<std::string> reference(const Case& c, const std::vector<int>& cs) {
  std::vector<std::string> log; int count = 0;
  if (c.fn == 'd') {
    // a destruction requirement lives to the end of its scope: a death inside it is silent, survival is one "still alive"
    // report at the end of the scope, and a death after it is unexpected
    bool deleted = false;
    for (int a : cs) { if (a == 1) log.push_back("v(1) ok: hit0"); else if (!deleted) { deleted = true; log.push_back("delete:"); } }
    log.push_back("end-of-scope:");
    log.push_back(std::string("after-scope:") + (deleted ? "" : " N:still_alive"));
    if (!deleted) log.push_back("late-delete: N:unexpected_destruction");
    return log;
  }
  auto base = [&](int a) {
    return c.fn == 'v' ? "v(" + std::to_string(a) + ") ok: hit0" : "f(" + std::to_string(a) + ") ->0: hit0";
  };
  for (int a : cs) {
    bool match = !c.has_with || a != 2;
    std::string call = std::string(1, c.fn) + "(" + std::to_string(a) + ")";
    if (c.hi == 0) {
      if (match) log.push_back(call + " fatal: F:forbidden"); else log.push_back(base(a));
    } else if (match && (c.hi == 255 || count < c.hi)) {
      ++count;
      log.push_back(call + (c.fn == 'v' ? " ok:" : " ->7:") + (c.has_hit ? " hit1" : ""));
    } else log.push_back(base(a));
  }
  log.push_back("end-of-scope:");
  log.push_back(std::string("after-scope:") + (count < c.lo ? " N:unfulfilled" : ""));
  log.push_back(base(1));
  return log;
}
static std::string join(const std::vector<std::string>& v) { std::string s; for (auto& x : v) { s += x; s += " | "; } return s; }
}  // namespace sp

int main(int argc, char** argv) {
  using namespace sp;
  R.args(argc, argv);
  std::string kinds = getenv("SPELL_KINDS") ? getenv("SPELL_KINDS") : "";   // e.g. "FORBID" for C07
  trompeloeil::set_reporter([](trompeloeil::severity s, const char*, unsigned long, const std::string& msg) {
    g_cur += std::string(s == trompeloeil::severity::fatal ? " F:" : " N:") + kind_of(msg);
    if (s == trompeloeil::severity::fatal) throw Fatal{};
  });
  auto seqs = en::all_seqs(1, 2, R.thorough() ? 5 : 4);
  for (int k = 0; k < g_ncases; ++k) {
    const Case& c = g_cases[k];
    if (!kinds.empty() && kinds.find(c.kind) == std::string::npos) continue;
    for (auto& cs : seqs) {
      g_log.clear(); g_cur.clear();
      c.run(cs.data(), (int)cs.size());
      R.check(c.text, "calls " + en::vec_str(cs), join(g_log), join(reference(c, cs)), c.kind);
    }
  }
  return R.finish("every spelling of an expectation - {REQUIRE,ALLOW,FORBID}_CALL x {plain, variadic _V} x {scoped, NAMED_} x clause lists (WITH / LR_WITH / TIMES forms / SIDE_EFFECT / RETURN) on a void and an int function - "
                  "stacked over an older ALLOW_CALL, x every call sequence over the arguments {1,2} up to length 4 (quick) / 5 (thorough); observed per call: outcome, which expectation's clauses ran, reports; "
                  "then the reports at the end of the scope and one more call after it; compared with a reference that knows only bounds, condition and scope",
                  "[\"the reporter's fatal reports throw\", \"NAMED_ handles are locals of the same scope as the scoped forms\"]");
}
