// Engine E3 "enum": shared bookkeeping for exhaustive term x value enumerations against a reference evaluator.
#pragma once
#include <chrono>
#include <cstdio>
#include <cstdlib>
#include <cstring>
#include <fstream>
#include <set>
#include <sstream>
#include <string>
#include <vector>

namespace en {

struct Recorder {
  std::string prop, tier = "quick", evidence_path, replay_dir = ".", filter;  // filter: replay mode, only cases whose id contains it
  long seed = 0;
  long evaluations = 0, mismatches = 0, leniency = 0;
  std::set<std::string> terms;      // distinct terms (the "states" of a term-space exploration)
  std::set<std::string> answers;    // distinct (family, answer) classes observed
  std::vector<std::string> samples, violations;
  std::vector<std::string> notes;
  std::chrono::steady_clock::time_point t0 = std::chrono::steady_clock::now();

  void args(int argc, char** argv) {
    for (int i = 1; i < argc; ++i) {
      std::string a = argv[i];
      auto nxt = [&]() { if (i + 1 >= argc) { fprintf(stderr, "missing value for %s\n", a.c_str()); exit(2); } return std::string(argv[++i]); };
      if (a == "--tier") tier = nxt(); else if (a == "--evidence") evidence_path = nxt(); else if (a == "--replay-dir") replay_dir = nxt();
      else if (a == "--replay") filter = nxt(); else if (a == "--seed") seed = atol(nxt().c_str()); else if (a == "--prop") prop = nxt();
      else { fprintf(stderr, "unknown argument %s\n", a.c_str()); exit(2); }
    }
  }
  bool thorough() const { return tier == "thorough"; }
  bool wanted(const std::string& id) const { return filter.empty() || id.find(filter) != std::string::npos; }

  // term: the matcher / printer expression; input: the value(s); family: coarse class for the distinct-outcome count
  void check(const std::string& term, const std::string& input, const std::string& got, const std::string& expected, const char* family = "") {
    std::string id = term + " <- " + input;
    if (!wanted(id)) return;
    ++evaluations;
    if (terms.size() < 2000000) terms.insert(term);
    answers.insert(std::string(family) + ":" + (got.size() > 24 ? got.substr(0, 24) : got));
    if (!filter.empty()) printf("case %s\n   library : %s\n   expected: %s\n", id.c_str(), got.c_str(), expected.c_str());
    if (got != expected) {
      ++mismatches;
      if (violations.size() < 5) violations.push_back("{\"case\": \"" + esc(id) + "\", \"library\": \"" + esc(got) + "\", \"reference\": \"" + esc(expected) + "\"}");
    } else if (samples.size() < 6 && (evaluations % 9973) == 1) samples.push_back(id + " => " + got);
  }
  void check(const std::string& term, const std::string& input, bool got, bool expected, const char* family = "") { check(term, input, std::string(got ? "accept" : "reject"), std::string(expected ? "accept" : "reject"), family); }
  // the statement allows either answer
  void check_either(const std::string& term, const std::string& input, bool got, bool a, bool b, const char* family = "") {
    if (a != b) ++leniency;
    check(term, input, got, got == a ? a : b, family);
  }

  static std::string esc(const std::string& s) {
    std::string o;
    for (unsigned char c : s) { if (c == '"' || c == '\\') { o += '\\'; o += (char)c; } else if (c == '\n') o += "\\n"; else if (c < 0x20) { char b[8]; snprintf(b, sizeof b, "\\u%04x", c); o += b; } else o += (char)c; }
    return o;
  }

  int finish(const char* rule, const char* assumptions_json) {
    double wall = std::chrono::duration<double>(std::chrono::steady_clock::now() - t0).count();
    std::vector<std::string> paths;
    if (filter.empty()) {
      for (size_t i = 0; i < violations.size(); ++i) {
        std::string pth = replay_dir + "/" + prop + "-" + std::to_string(i + 1) + ".json";
        std::ofstream f(pth);
        f << "{\n \"property\": \"" << prop << "\",\n \"engine\": \"enum\",\n \"what\": \"library answer differs from the reference evaluator\",\n \"violation\": " << violations[i] << "\n}\n";
        paths.push_back(pth);
      }
      if (!evidence_path.empty()) {
        std::ofstream f(evidence_path);
        if (samples.empty()) samples.push_back("(no sample recorded)");
        f << "{\n \"property_id\": \"" << prop << "\",\n \"tier\": \"" << tier << "\",\n \"seed\": " << seed << ",\n \"level\": \"model_checking\",\n \"coverage\": {\n"
          << "  \"states\": " << terms.size() << ",\n  \"transitions\": " << evaluations << ",\n  \"traces_validated_against_impl\": " << evaluations << ",\n"
          << "  \"distinct_terms\": " << terms.size() << ",\n  \"evaluations\": " << evaluations << ",\n  \"distinct_answer_classes\": " << answers.size() << ",\n  \"leniency_hits\": " << leniency << ",\n  \"exhaustive\": true,\n  \"samples\": [";
        for (size_t i = 0; i < samples.size(); ++i) f << (i ? ", " : "") << "\n   \"" << esc(samples[i]) << '"';
        f << "\n  ],\n  \"notes\": [";
        for (size_t i = 0; i < notes.size(); ++i) f << (i ? ", " : "") << '"' << esc(notes[i]) << '"';
        f << "],\n  \"rule\": \"" << esc(rule) << "\"\n },\n \"assumptions\": " << assumptions_json << ",\n \"wall_s\": " << wall << ",\n \"violations\": " << mismatches << "\n}\n";
      }
    }
    fprintf(stderr, "[%s %s] terms=%zu evaluations=%ld answer_classes=%zu leniency=%ld mismatches=%ld wall=%.1fs\n", prop.c_str(), tier.c_str(), terms.size(), evaluations, answers.size(), leniency, mismatches, wall);
    for (auto& p : paths) printf("VIOLATION property=%s replay=%s\n", prop.c_str(), p.c_str());
    if (!filter.empty()) printf(mismatches ? "RESULT: deviation reproduced\n" : "RESULT: no deviation\n");
    return mismatches ? 1 : 0;
  }
};

inline std::string vec_str(const std::vector<int>& v) { std::string s = "{"; for (size_t i = 0; i < v.size(); ++i) { if (i) s += ","; s += std::to_string(v[i]); } return s + "}"; }

// all sequences over {lo..hi} of length 0..maxlen, shortest first
inline std::vector<std::vector<int>> all_seqs(int lo, int hi, int maxlen) {
  std::vector<std::vector<int>> out; out.push_back({}); size_t from = 0;
  for (int l = 1; l <= maxlen; ++l) { size_t to = out.size(); for (size_t i = from; i < to; ++i) for (int v = lo; v <= hi; ++v) { auto x = out[i]; x.push_back(v); out.push_back(x); } from = to; }
  return out;
}

}  // namespace en
