// C11: range matchers. Every range over {1,2,3} up to a length bound x every element list up to a length bound
// x 8 matchers x variadic / collection flavour x element families x containers, against the mathematical reference.
#include <trompeloeil.hpp>
#include "enum_common.hpp"
#include <algorithm>
#include <array>
#include <deque>
#include <functional>
#include <list>
#include <vector>

using namespace trompeloeil;
using V = std::vector<int>;
static en::Recorder R;
struct M { MAKE_MOCK1(f, void(const std::vector<int>&)); };
struct Fatal {};

// ---------------- element families: how a list of ints becomes a list of element matchers ----------------
// PLAIN: the values themselves; EQ: eq(v); BAND: all_of(ge(v), le(v)) (accepts exactly v); GT: gt(v-1) (overlapping: accepts x >= v)
enum Family { PLAIN, EQ, BAND, GT };
static const char* FAMN[] = {"plain", "eq", "band", "gt"};
static bool fam_accepts(Family f, int elem, int x) { return f == GT ? x > elem - 1 : x == elem; }
static auto mk(std::integral_constant<int, PLAIN>, int v) { return v; }
static auto mk(std::integral_constant<int, EQ>, int v) { return eq(v); }
static auto mk(std::integral_constant<int, BAND>, int v) { return all_of(ge(v), le(v)); }
static auto mk(std::integral_constant<int, GT>, int v) { return gt(v - 1); }

// ---------------- references ----------------
static bool ref_is(Family f, const V& r, const V& e) { if (r.size() != e.size()) return false; for (size_t i = 0; i < e.size(); ++i) if (!fam_accepts(f, e[i], r[i])) return false; return true; }
static bool ref_starts(Family f, const V& r, const V& e) { if (e.size() > r.size()) return false; for (size_t i = 0; i < e.size(); ++i) if (!fam_accepts(f, e[i], r[i])) return false; return true; }
static bool ref_ends(Family f, const V& r, const V& e) { if (e.size() > r.size()) return false; size_t off = r.size() - e.size(); for (size_t i = 0; i < e.size(); ++i) if (!fam_accepts(f, e[i], r[off + i])) return false; return true; }
// does an injective assignment of every listed element to a distinct accepting range member exist?
static bool injective(Family f, const V& r, const V& e, size_t k, std::vector<bool>& used) {
  if (k == e.size()) return true;
  for (size_t i = 0; i < r.size(); ++i) if (!used[i] && fam_accepts(f, e[k], r[i])) { used[i] = true; if (injective(f, r, e, k + 1, used)) { used[i] = false; return true; } used[i] = false; }
  return false;
}
static bool ref_includes(Family f, const V& r, const V& e) { std::vector<bool> u(r.size(), false); return injective(f, r, e, 0, u); }
static bool ref_perm(Family f, const V& r, const V& e) { return r.size() == e.size() && ref_includes(f, r, e); }
// documented first-fit assignment taken in range order; the statement does not say how a consumed matcher is
// removed: swap-with-last and order-preserving removal are both accepted where they differ
static bool first_fit(Family f, const V& r, V e, bool perm, bool swap_removal) {
  for (int x : r) {
    size_t k = 0; while (k < e.size() && !fam_accepts(f, e[k], x)) ++k;
    if (k == e.size()) { if (perm) return false; continue; }
    if (swap_removal) { e[k] = e.back(); e.pop_back(); } else e.erase(e.begin() + (long)k);
  }
  return e.empty();
}

// ---------------- variadic flavour, arity 0..4 ----------------
template <int F, typename Range>
static void variadic(const char* cont, const Range& range, const V& r, const V& e) {
  std::integral_constant<int, F> f;
  bool gi, gs, ge_, gn, gp;
  switch (e.size()) {
#define FIVE(...) gi = param_matches(range_is(__VA_ARGS__), std::ref(range)); gs = param_matches(range_starts_with(__VA_ARGS__), std::ref(range)); ge_ = param_matches(range_ends_with(__VA_ARGS__), std::ref(range)); \
                  gn = param_matches(range_includes(__VA_ARGS__), std::ref(range)); gp = param_matches(range_is_permutation(__VA_ARGS__), std::ref(range));
    case 0: FIVE() break;
    case 1: FIVE(mk(f, e[0])) break;
    case 2: FIVE(mk(f, e[0]), mk(f, e[1])) break;
    case 3: FIVE(mk(f, e[0]), mk(f, e[1]), mk(f, e[2])) break;
    default: FIVE(mk(f, e[0]), mk(f, e[1]), mk(f, e[2]), mk(f, e[3])) break;
#undef FIVE
  }
  Family fam = (Family)F;
  std::string in = std::string(cont) + en::vec_str(r), fl = std::string("(") + FAMN[F] + " " + en::vec_str(e) + ")";
  R.check("range_is" + fl, in, gi, ref_is(fam, r, e), "is");
  R.check("range_starts_with" + fl, in, gs, ref_starts(fam, r, e), "starts");
  R.check("range_ends_with" + fl, in, ge_, ref_ends(fam, r, e), "ends");
  if (fam == GT) {
    R.check_either("range_includes" + fl, in, gn, first_fit(fam, r, e, false, true), first_fit(fam, r, e, false, false), "includes");
    R.check_either("range_is_permutation" + fl, in, gp, first_fit(fam, r, e, true, true), first_fit(fam, r, e, true, false), "perm");
    if (gn && !ref_includes(fam, r, e)) R.check("range_includes" + fl + " accepts only if an assignment to distinct members exists", in, true, false, "includes");
    if (gp && !ref_perm(fam, r, e)) R.check("range_is_permutation" + fl + " accepts only if a bijective assignment exists", in, true, false, "perm");
  } else {
    R.check("range_includes" + fl, in, gn, ref_includes(fam, r, e), "includes");
    R.check("range_is_permutation" + fl, in, gp, ref_perm(fam, r, e), "perm");
  }
}

// ---------------- collection flavour: one container holding the elements ----------------
template <typename Range, typename Coll>
static void collection(const char* cont, const char* collname, Family fam, const Range& range, const Coll& coll, const V& r, const V& e) {
  std::string in = std::string(cont) + en::vec_str(r), fl = std::string("(") + collname + " of " + FAMN[fam] + " " + en::vec_str(e) + ")";
  R.check("range_is" + fl, in, param_matches(range_is(coll), std::ref(range)), ref_is(fam, r, e), "is");
  R.check("range_starts_with" + fl, in, param_matches(range_starts_with(coll), std::ref(range)), ref_starts(fam, r, e), "starts");
  R.check("range_ends_with" + fl, in, param_matches(range_ends_with(coll), std::ref(range)), ref_ends(fam, r, e), "ends");
  bool gn = param_matches(range_includes(coll), std::ref(range)), gp = param_matches(range_is_permutation(coll), std::ref(range));
  if (fam == GT) {
    R.check_either("range_includes" + fl, in, gn, first_fit(fam, r, e, false, true), first_fit(fam, r, e, false, false), "includes");
    R.check_either("range_is_permutation" + fl, in, gp, first_fit(fam, r, e, true, true), first_fit(fam, r, e, true, false), "perm");
    if (gn && !ref_includes(fam, r, e)) R.check("range_includes" + fl + " accepts only if an assignment to distinct members exists", in, true, false, "includes");
    if (gp && !ref_perm(fam, r, e)) R.check("range_is_permutation" + fl + " accepts only if a bijective assignment exists", in, true, false, "perm");
  } else {
    R.check("range_includes" + fl, in, gn, ref_includes(fam, r, e), "includes");
    R.check("range_is_permutation" + fl, in, gp, ref_perm(fam, r, e), "perm");
  }
}

template <typename Range>
static void quantifiers(const char* cont, const Range& range, const V& r) {
  std::string in = std::string(cont) + en::vec_str(r);
  for (int v = 0; v <= 4; ++v) {
    std::string sv = std::to_string(v);
    R.check("range_all_of(gt(" + sv + "))", in, param_matches(range_all_of(gt(v)), std::ref(range)), std::all_of(r.begin(), r.end(), [&](int x) { return x > v; }), "all");
    R.check("range_any_of(eq(" + sv + "))", in, param_matches(range_any_of(eq(v)), std::ref(range)), std::any_of(r.begin(), r.end(), [&](int x) { return x == v; }), "any");
    R.check("range_none_of(le(" + sv + "))", in, param_matches(range_none_of(le(v)), std::ref(range)), std::none_of(r.begin(), r.end(), [&](int x) { return x <= v; }), "none");
    R.check("range_all_of(" + sv + ")", in, param_matches(range_all_of(v), std::ref(range)), std::all_of(r.begin(), r.end(), [&](int x) { return x == v; }), "all");
    R.check("range_any_of(" + sv + ")", in, param_matches(range_any_of(v), std::ref(range)), std::any_of(r.begin(), r.end(), [&](int x) { return x == v; }), "any");
    R.check("range_none_of(" + sv + ")", in, param_matches(range_none_of(v), std::ref(range)), std::none_of(r.begin(), r.end(), [&](int x) { return x == v; }), "none");
    R.check("range_any_of(all_of(ge(" + sv + "),le(" + sv + ")))", in, param_matches(range_any_of(all_of(ge(v), le(v))), std::ref(range)), std::any_of(r.begin(), r.end(), [&](int x) { return x == v; }), "any");
    R.check("range_all_of(!eq(" + sv + "))", in, param_matches(range_all_of(!eq(v)), std::ref(range)), std::all_of(r.begin(), r.end(), [&](int x) { return x != v; }), "all");
    R.check("range_none_of(_)", in, param_matches(range_none_of(_), std::ref(range)), r.empty(), "none");
  }
}

template <typename Range>
static void all_for_range(const char* cont, const Range& range, const V& r, const std::vector<V>& lists, bool light) {
  for (auto& e : lists) {
    variadic<PLAIN>(cont, range, r, e);
    variadic<EQ>(cont, range, r, e);
    if (!light) { variadic<BAND>(cont, range, r, e); variadic<GT>(cont, range, r, e); }
    // collection flavour: containers of values and of matchers
    collection(cont, "vector", PLAIN, range, e, r, e);
    if (!light) {
      std::list<int> el(e.begin(), e.end()); collection(cont, "list", PLAIN, range, el, r, e);
      std::deque<int> ed(e.begin(), e.end()); collection(cont, "deque", PLAIN, range, ed, r, e);
      std::vector<decltype(eq(1))> em; for (int v : e) em.push_back(eq(v)); collection(cont, "vector<eq>", EQ, range, em, r, e);
      std::vector<decltype(gt(1))> eg; for (int v : e) eg.push_back(gt(v - 1)); collection(cont, "vector<gt>", GT, range, eg, r, e);
      if (e.size() == 2) { int ca[2] = {e[0], e[1]}; collection(cont, "int[2]", PLAIN, range, ca, r, e); std::array<int, 2> aa = {{e[0], e[1]}}; collection(cont, "array<int,2>", PLAIN, range, aa, r, e); }
      if (e.size() == 3) { int ca[3] = {e[0], e[1], e[2]}; collection(cont, "int[3]", PLAIN, range, ca, r, e); }
      if (e.empty()) { std::array<int, 0> a0{}; collection(cont, "array<int,0>", PLAIN, range, a0, r, e); }
    }
  }
  quantifiers(cont, range, r);
}

int main(int argc, char** argv) {
  R.prop = "C11"; R.args(argc, argv);
  const int maxr = R.thorough() ? 5 : 4, maxe = R.thorough() ? 4 : 3;
  std::vector<V> ranges = en::all_seqs(1, 3, maxr), lists = en::all_seqs(1, 3, maxe);
  for (auto& r : ranges) {
    all_for_range("vector", r, r, lists, false);
    if (r.size() <= (R.thorough() ? 4u : 3u)) {
      std::list<int> rl(r.begin(), r.end()); all_for_range("list", rl, r, lists, true);
      std::deque<int> rd(r.begin(), r.end()); all_for_range("deque", rd, r, lists, true);
    }
    if (r.size() == 1) { int a[1] = {r[0]}; all_for_range("int[1]", a, r, lists, true); std::array<int, 1> s = {{r[0]}}; all_for_range("array<int,1>", s, r, lists, true); }
    if (r.size() == 2) { int a[2] = {r[0], r[1]}; all_for_range("int[2]", a, r, lists, true); std::array<int, 2> s = {{r[0], r[1]}}; all_for_range("array<int,2>", s, r, lists, true); }
    if (r.size() == 3) { int a[3] = {r[0], r[1], r[2]}; all_for_range("int[3]", a, r, lists, true); std::array<int, 3> s = {{r[0], r[1], r[2]}}; all_for_range("array<int,3>", s, r, lists, true); }
    if (r.empty()) { std::array<int, 0> s{}; all_for_range("array<int,0>", s, r, lists, true); std::initializer_list<int> il{}; all_for_range("initializer_list", il, r, lists, true); }
    if (r.size() == 2) { std::initializer_list<int> il{r[0], r[1]}; (void)il; }
  }
  // wildcard among the elements (a different matcher type): overlapping by construction
  for (auto& r : ranges) if (r.size() <= 3) {
    std::string in = "vector" + en::vec_str(r);
    {  // first-fit in range order with the matcher list [_, 1] (the wildcard overlaps with 1)
      auto ff = [&](bool swap_removal) {
        std::vector<std::function<bool(int)>> ms{[](int) { return true; }, [](int x) { return x == 1; }};
        for (int x : r) { size_t k = 0; while (k < ms.size() && !ms[k](x)) ++k; if (k == ms.size()) continue; if (swap_removal) { ms[k] = ms.back(); ms.pop_back(); } else ms.erase(ms.begin() + (long)k); }
        return ms.empty();
      };
      R.check_either("range_includes(_, 1)", in, param_matches(range_includes(_, 1), std::ref(r)), ff(true), ff(false), "includes");
    }
    R.check("range_is(_, _)", in, param_matches(range_is(_, _), std::ref(r)), r.size() == 2, "is");
    R.check("range_starts_with(_)", in, param_matches(range_starts_with(_), std::ref(r)), r.size() >= 1, "starts");
    R.check("range_ends_with(_, 3)", in, param_matches(range_ends_with(_, 3), std::ref(r)), r.size() >= 2 && r.back() == 3, "ends");
    R.check("range_is_permutation(_, _, _)", in, param_matches(range_is_permutation(_, _, _), std::ref(r)), r.size() == 3, "perm");
  }
  // matchers own what they were built from: a collection or element passed as an lvalue is copied at creation (built-in arrays
  // excepted, which the library views), and the lvalue itself is left intact for the next matcher built from it
  {
    const V subject{1, 2, 3};
    std::vector<int> lv{1, 2, 3}; std::array<int, 3> la{{1, 2, 3}}; std::deque<int> ld{1, 2, 3}; std::list<int> ll{1, 2, 3};
    auto m_is_v = range_is(lv); auto m_perm_a = range_is_permutation(la); auto m_starts_d = range_starts_with(ld); auto m_ends_l = range_ends_with(ll); auto m_incl_v = range_includes(lv);
    lv[0] = 9; lv[2] = 9; la[1] = 9; ld[0] = 9; ll.back() = 9;   // the caller goes on using its objects
    R.check("range_is(vector lvalue), lvalue modified afterwards", "vector{1,2,3}", param_matches(m_is_v, std::ref(subject)), true, "owns");
    R.check("range_is_permutation(array lvalue), lvalue modified afterwards", "vector{1,2,3}", param_matches(m_perm_a, std::ref(subject)), true, "owns");
    R.check("range_starts_with(deque lvalue), lvalue modified afterwards", "vector{1,2,3}", param_matches(m_starts_d, std::ref(subject)), true, "owns");
    R.check("range_ends_with(list lvalue), lvalue modified afterwards", "vector{1,2,3}", param_matches(m_ends_l, std::ref(subject)), true, "owns");
    R.check("range_includes(vector lvalue), lvalue modified afterwards", "vector{1,2,3}", param_matches(m_incl_v, std::ref(subject)), true, "owns");
    const V changed{9, 2, 9};
    R.check("range_is(vector lvalue) does not follow the lvalue", "vector{9,2,9}", param_matches(m_is_v, std::ref(changed)), false, "owns");
    // elements with a move that differs from a copy, used for several matchers
    const std::string big(40, 'b'), other(40, 'o');
    std::string banned = big, wanted = big; auto eqm = eq(big);
    const std::vector<std::string> has{other, big}, hasnot{other, other}, onlybig{big}, bigbig{big, big}, bbo{big, big, other}, obb{other, big, big};
    auto n1 = range_none_of(banned); auto n2 = range_none_of(banned); auto a1 = range_any_of(wanted); auto a2 = range_any_of(wanted); auto l1 = range_all_of(wanted); auto l2 = range_all_of(wanted);
    auto e1 = range_any_of(eqm); auto e2 = range_none_of(eqm); auto i2 = range_is(eq(wanted), eq(banned));   // (for the positional forms a std::string argument is a collection of characters)
    R.check("element lvalues intact after building twelve matchers from them", "std::string x3", std::string(banned == big && wanted == big ? "intact" : "changed"), std::string("intact"), "owns");   // checked again at the end of the block
    R.check("first range_none_of(lvalue string)", "{other,big}", param_matches(n1, std::ref(has)), false, "owns"); R.check("second range_none_of(same lvalue)", "{other,big}", param_matches(n2, std::ref(has)), false, "owns");
    R.check("first range_none_of(lvalue string)", "{other,other}", param_matches(n1, std::ref(hasnot)), true, "owns"); R.check("second range_none_of(same lvalue)", "{other,other}", param_matches(n2, std::ref(hasnot)), true, "owns");
    R.check("first range_any_of(lvalue string)", "{other,big}", param_matches(a1, std::ref(has)), true, "owns"); R.check("second range_any_of(same lvalue)", "{other,big}", param_matches(a2, std::ref(has)), true, "owns");
    R.check("first range_all_of(lvalue string)", "{other,big}", param_matches(l1, std::ref(has)), false, "owns"); R.check("second range_all_of(same lvalue)", "{big}", param_matches(l2, std::ref(onlybig)), true, "owns");
    R.check("range_any_of(eq matcher lvalue)", "{other,big}", param_matches(e1, std::ref(has)), true, "owns"); R.check("range_none_of(same eq matcher lvalue)", "{other,big}", param_matches(e2, std::ref(has)), false, "owns");
    R.check("range_is(two lvalue strings)", "{big,big}", param_matches(i2, std::ref(bigbig)), true, "owns");
  }
  // through a real mock function (a systematic slice: every range of length <= 2)
  trompeloeil::set_reporter([](trompeloeil::severity s, char const*, unsigned long, std::string const&) { if (s == trompeloeil::severity::fatal) throw Fatal{}; });
  for (auto& r : ranges) if (r.size() <= 2) {
    M m; bool acc;
    { REQUIRE_CALL(m, f(range_is_permutation(2, 1))).TIMES(AT_MOST(1)); try { m.f(r); acc = true; } catch (Fatal&) { acc = false; } }
    R.check("mock call f(range_is_permutation(2,1))", "vector" + en::vec_str(r), acc, ref_perm(PLAIN, r, {2, 1}), "mock");
    { REQUIRE_CALL(m, f(range_includes(eq(1)))).TIMES(AT_MOST(1)); try { m.f(r); acc = true; } catch (Fatal&) { acc = false; } }
    R.check("mock call f(range_includes(eq(1)))", "vector" + en::vec_str(r), acc, ref_includes(EQ, r, {1}), "mock");
  }
  R.notes.push_back("overlapping element matchers (family gt): first-fit in range order; swap-removal and order-preserving removal of a consumed matcher are both accepted where they differ (counted as leniency_hits)");
  return R.finish("every range over {1,2,3} up to the length bound x every element list up to its bound x 8 range matchers x variadic/collection flavour x element families (plain, eq, all_of(ge,le), gt) x containers; the library's param_matches answer is compared with the mathematical predicate (first-fit reference for overlapping matchers)",
                  "[\"reference predicates in engines/enum/c11_range.cpp\", \"value alphabet {1,2,3}; lengths bounded as stated in the tier\"]");
}
