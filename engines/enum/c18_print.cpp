// C18: value printing. A family of types x values x all 81 prior stream states (base x fill x width x adjustment)
// against an independent reference formatter. Null-safety is additionally checked by the sanitizer build (a null
// dereference terminates the harness, which the driver reports as a violation).
#include <trompeloeil.hpp>
#include "enum_common.hpp"
#include <array>
#include <deque>
#include <list>
#include <map>
#include <memory>
#include <set>
#include <sstream>
#if __cplusplus >= 201703L
#include <optional>
#endif

static en::Recorder R;

template <size_t N> struct Opaque { unsigned char b[N]; };
struct NullCmp { bool n; bool operator==(std::nullptr_t) const { return n; } friend std::ostream& operator<<(std::ostream& o, const NullCmp&) { return o << "NC"; } };
struct Custom { int v; };                 // has a user-provided printer<T>, no operator<<
struct CustomAndStream { int v; };        // has both: the printer wins
inline std::ostream& operator<<(std::ostream& o, const CustomAndStream& c) { return o << "stream:" << c.v; }
struct PtrLike { const int* p; bool operator==(std::nullptr_t) const { return p == nullptr; } };  // null-comparable, otherwise opaque
namespace trompeloeil {
template <> struct printer<Custom> { static void print(std::ostream& os, const Custom& c) { os << "Custom<" << c.v << ">"; } };
template <> struct printer<CustomAndStream> { static void print(std::ostream& os, const CustomAndStream& c) { os << "printer:" << c.v; } };
}

struct Widget { int id; };
namespace trompeloeil {
// a user printer for a null-comparable type prints the pointee: it must never be handed a null
template <> struct printer<std::unique_ptr<Widget>> { static void print(std::ostream& os, const std::unique_ptr<Widget>& w) { os << "widget#" << w->id; } };
template <> struct printer<const Widget*> { static void print(std::ostream& os, const Widget* const& w) { os << "widget@" << w->id; } };
}
struct FatalRep {};
static std::vector<std::string> g_reports, g_traces;
struct Tr : trompeloeil::tracer { void trace(char const*, unsigned long, std::string const& c) override { g_traces.push_back(c); } };
struct MM { MAKE_MOCK2(f, void(const char*, std::pair<int*, int>)); };
struct MR {
  MAKE_MOCK3(g, void(const std::pair<int, int>&, const std::tuple<int, char>&, const Custom&));
  MAKE_MOCK2(h, void(const std::unique_ptr<Widget>&, std::pair<int, int>&&));
};

struct State { std::ios_base::fmtflags base, adj; char fill; int width; std::ios_base::fmtflags extra; };
// the 81 states of base x adjustment x fill x width, plus the other number-formatting flags a previous insertion (e.g. a user's
// printer for an earlier argument of the same report) may have left behind: "default formatting" means those are off as well
static std::vector<State> all_states() {
  std::vector<State> v;
  for (auto b : {std::ios::dec, std::ios::oct, std::ios::hex}) for (auto a : {std::ios::left, std::ios::right, std::ios::internal}) for (char f : {' ', '*', '0'}) for (int w : {0, 3, 9}) v.push_back({b, a, f, w, std::ios_base::fmtflags{}});
  for (auto b : {std::ios::dec, std::ios::hex}) for (int w : {0, 9}) for (auto x : {std::ios::showbase | std::ios::uppercase, std::ios::showpos | std::ios::boolalpha, std::ios::showbase | std::ios::showpos | std::ios::uppercase | std::ios::boolalpha})
    v.push_back({b, std::ios::right, '*', w, x});
  return v;
}
static const std::vector<State> STATES = all_states();
static std::string state_str(const State& s) {
  std::ostringstream o; o << (s.base == std::ios::dec ? "dec" : s.base == std::ios::oct ? "oct" : "hex") << '/' << (s.adj == std::ios::left ? "left" : s.adj == std::ios::right ? "right" : "internal") << "/fill'" << s.fill << "'/w" << s.width;
  if (s.extra & std::ios::showbase) o << "/showbase"; if (s.extra & std::ios::uppercase) o << "/uppercase"; if (s.extra & std::ios::showpos) o << "/showpos"; if (s.extra & std::ios::boolalpha) o << "/boolalpha";
  return o.str();
}
static void apply_state(std::ostream& os, const State& s) { os.setf(s.base, std::ios::basefield); os.setf(s.adj, std::ios::adjustfield); os.setf(s.extra); os.fill(s.fill); os.width(s.width); }
static bool extra_kept(std::ostream& os, const State& s) { const auto m = std::ios::showbase | std::ios::uppercase | std::ios::showpos | std::ios::boolalpha; return (os.flags() & m) == s.extra; }
static std::string squeeze(const std::string& s) { std::string o; bool sp = false; for (char c : s) { if (c == ' ' || c == '\n') sp = true; else { if (sp && !o.empty()) o += ' '; sp = false; o += c; } } return o; }

// directly streamable / hex-dumped leaf: default formatting whatever the state, state restored, next insertion unaffected
template <typename T> static void leaf(const std::string& what, const T& v, const std::string& exp, bool modulo_space = false) {
  for (auto& s : STATES) {
    std::ostringstream os; apply_state(os, s);
    trompeloeil::print(os, v);
    std::string got = os.str();
    R.check("print(" + what + ")", state_str(s), modulo_space ? squeeze(got) : got, modulo_space ? squeeze(exp) : exp, "leaf");
    bool restored = os.width() == s.width && os.fill() == s.fill && (os.flags() & std::ios::basefield) == s.base && (os.flags() & std::ios::adjustfield) == s.adj && extra_kept(os, s);
    R.check("stream state after print(" + what + ")", state_str(s), std::string(restored ? "restored" : "changed"), std::string("restored"), "restore");
    std::ostringstream ref; apply_state(ref, s); ref << 200; os << 200;
    R.check("next insertion after print(" + what + ")", state_str(s), os.str().substr(got.size()), ref.str(), "restore");
  }
}
// structures and nullptr: checked under the 27 states without a pending width (the library writes braces and the
// literal with plain operator<< on the caller's stream, which consumes a pending width; the statement does not cover that)
template <typename T> static void structural(const std::string& what, const T& v, const std::string& exp) {
  // a user-provided printer<T> writes on the caller's stream itself: which formatting flags it honours is the user's business
  const bool user_printer = what.find("Custom") != std::string::npos || what.find("Widget") != std::string::npos || what.find("printer<T>") != std::string::npos;
  for (auto& s : STATES) {
    if (s.width != 0) continue;
    if (user_printer && s.extra != std::ios_base::fmtflags{}) continue;
    std::ostringstream os; apply_state(os, s);
    trompeloeil::print(os, v);
    R.check("print(" + what + ")", state_str(s), os.str(), exp, "struct");
    bool restored = os.fill() == s.fill && (os.flags() & std::ios::basefield) == s.base && (os.flags() & std::ios::adjustfield) == s.adj && extra_kept(os, s);
    R.check("stream flags after print(" + what + ")", state_str(s), std::string(restored ? "restored" : "changed"), std::string("restored"), "restore");
  }
}
template <size_t N> static void hexcase(int pattern) {
  Opaque<N> v;
  for (size_t i = 0; i < N; ++i) v.b[i] = pattern == 0 ? (unsigned char)(0xf0 - 7 * i) : pattern == 1 ? (unsigned char)(i + 1) : (unsigned char)(0x80 + 3 * i);
  std::ostringstream exp; exp << N << "-byte object={";
  for (size_t i = 0; i < N; ++i) { char buf[8]; snprintf(buf, sizeof buf, " 0x%02x", v.b[i]); exp << buf; }
  exp << " }";
  leaf("opaque " + std::to_string(N) + " bytes pattern " + std::to_string(pattern), v, exp.str(), true);
}
template <size_t... I> static void hexall(std::index_sequence<I...>) { int d[] = {(hexcase<I + 1>(0), hexcase<I + 1>(1), hexcase<I + 1>(2), 0)...}; (void)d; }

int main(int argc, char** argv) {
  R.prop = "C18"; R.args(argc, argv);
  hexall(std::make_index_sequence<40>{});
  // integers of four widths, bool, char, strings
  for (long long v : {-17LL, 0LL, 5LL, 255LL, 100000LL}) { leaf("int " + std::to_string(v), (int)v, std::to_string((int)v)); leaf("long long " + std::to_string(v), v, std::to_string(v)); leaf("short " + std::to_string(v), (short)v, std::to_string((short)v)); }
  leaf("unsigned long 4000000000", 4000000000ul, "4000000000"); leaf("unsigned 255", 255u, "255");
  leaf("bool true", true, "1"); leaf("bool false", false, "0"); leaf("char q", 'q', "q");
  leaf("std::string ab", std::string("ab"), "ab"); leaf("std::string empty", std::string(""), ""); leaf("const char* xy", (const char*)"xy", "xy");
  leaf("null-comparable streamable, non-null", NullCmp{false}, "NC");
  // a user-provided printer<T> writes to the caller's stream itself: what happens to a pending width is the user's business
  structural("type with printer<T>", Custom{7}, "Custom<7>"); structural("type with printer<T> and operator<<", CustomAndStream{3}, "printer:3");
  { int x = 5; PtrLike pl{&x}; Opaque<sizeof(PtrLike)> raw; memcpy(raw.b, &pl, sizeof pl); std::ostringstream e; e << sizeof(PtrLike) << "-byte object={"; for (size_t i = 0; i < sizeof(PtrLike); ++i) { char b[8]; snprintf(b, sizeof b, " 0x%02x", raw.b[i]); e << b; } e << " }";
    leaf("null-comparable opaque, non-null", pl, e.str(), true); }
  // nulls of every kind print as nullptr and are never dereferenced
  const char* np = nullptr; int* ip = nullptr; std::unique_ptr<int> up; std::shared_ptr<int> sp; const std::string* strp = nullptr; void (*fp)() = nullptr;
  structural("const char* null", np, "nullptr"); structural("int* null", ip, "nullptr"); structural("unique_ptr null", up, "nullptr"); structural("shared_ptr null", sp, "nullptr");
  structural("std::string* null", strp, "nullptr"); structural("function pointer null", fp, "nullptr"); structural("nullptr_t", nullptr, "nullptr");
  structural("null-comparable streamable, null", NullCmp{true}, "nullptr"); structural("null-comparable opaque, null", PtrLike{nullptr}, "nullptr");
  { std::unique_ptr<Widget> nw, w(new Widget{5}); const Widget* npw = nullptr; const Widget* pw = w.get();
    structural("unique_ptr<Widget> with printer<T>, null", nw, "nullptr"); structural("unique_ptr<Widget> with printer<T>, non-null", w, "widget#5");
    structural("const Widget* with printer<T>, null", npw, "nullptr"); structural("const Widget* with printer<T>, non-null", pw, "widget@5");
    structural("pair<unique_ptr<Widget>, const Widget*> nulls", std::pair<std::unique_ptr<Widget>, const Widget*>(nullptr, nullptr), "{ nullptr, nullptr }");
    std::vector<const Widget*> vw{pw, nullptr}; structural("vector<const Widget*> with null", vw, "{ widget@5, nullptr }"); }
  // arguments are kept as reference wrappers (to const for const& parameters): printed like the value they refer to
  { const std::pair<int, std::string> pr(4, "p"); const std::tuple<int, char> tp(1, 'c'); const Custom cu{6}; const std::vector<int> vi{1, 2}; int x = 255; const int cx = 255; Opaque<2> o; o.b[0] = 1; o.b[1] = 2;
    structural("cref(pair<int,string>)", std::cref(pr), "{ 4, p }"); structural("cref(tuple<int,char>)", std::cref(tp), "{ 1, c }"); structural("cref(Custom)", std::cref(cu), "Custom<6>");
    structural("cref(vector<int>)", std::cref(vi), "{ 1, 2 }"); leaf("ref(int 255)", std::ref(x), "255"); leaf("cref(const int 255)", std::cref(cx), "255");
    leaf("cref(opaque 2 bytes)", std::cref(o), "2-byte object={ 0x01 0x02 }", true);
    std::pair<int, std::string> mpr(5, "q"); structural("ref(pair<int,string>)", std::ref(mpr), "{ 5, q }"); }
#if __cplusplus >= 201703L
  // an optional holding a null pointer compares equal to nullptr: it prints as nullptr and the pointer is not dereferenced
  { std::optional<int*> oi(nullptr); std::optional<const char*> oc(nullptr); std::optional<std::shared_ptr<int>> os_(std::shared_ptr<int>{});
    structural("optional<int*> holding null", oi, "nullptr"); structural("optional<const char*> holding null", oc, "nullptr"); structural("optional<shared_ptr<int>> holding null", os_, "nullptr");
    structural("pair<optional<int*>,int>", std::make_pair(oi, 3), "{ nullptr, 3 }"); structural("vector<optional<const char*>> holding nulls", std::vector<std::optional<const char*>>{oc, oc}, "{ nullptr, nullptr }"); }
#endif
  // pairs, tuples, collections, nested, with nulls and custom printers at every depth
  structural("pair<int,string>", std::make_pair(10, std::string("x")), "{ 10, x }");
  structural("pair<int*,const char*> nulls", std::pair<int*, const char*>(nullptr, nullptr), "{ nullptr, nullptr }");
  structural("pair<shared_ptr,unique-like> null", std::pair<std::shared_ptr<int>, NullCmp>(nullptr, NullCmp{true}), "{ nullptr, nullptr }");
  structural("pair<Custom,CustomAndStream>", std::make_pair(Custom{1}, CustomAndStream{2}), "{ Custom<1>, printer:2 }");
  structural("tuple<>", std::tuple<>{}, "{  }"); structural("tuple<int>", std::make_tuple(1), "{ 1 }"); structural("tuple<int,char>", std::make_tuple(1, 'c'), "{ 1, c }");
  structural("tuple<int,char,string>", std::make_tuple(1, 'c', std::string("s")), "{ 1, c, s }");
  structural("tuple<const char*,int*,Custom> nulls", std::tuple<const char*, int*, Custom>(nullptr, nullptr, Custom{5}), "{ nullptr, nullptr, Custom<5> }");
  structural("vector<int>", std::vector<int>{1, 20, 300}, "{ 1, 20, 300 }"); structural("vector<int> empty", std::vector<int>{}, "{  }");
  structural("list<string>", std::list<std::string>{"a", "", "b"}, "{ a, , b }"); structural("deque<int>", std::deque<int>{7}, "{ 7 }"); structural("set<int>", std::set<int>{3, 1, 2}, "{ 1, 2, 3 }");
  structural("vector<const char*> with null", std::vector<const char*>{"a", nullptr, "b"}, "{ a, nullptr, b }");
  structural("vector<shared_ptr> with null", std::vector<std::shared_ptr<int>>{nullptr}, "{ nullptr }");
  structural("vector<Custom>", std::vector<Custom>{{1}, {2}}, "{ Custom<1>, Custom<2> }");
  structural("map<int,const char*> with null", std::map<int, const char*>{{1, "one"}, {2, nullptr}}, "{ { 1, one }, { 2, nullptr } }");
  structural("map<string,int*> null values", std::map<std::string, int*>{{"k", nullptr}}, "{ { k, nullptr } }");
  structural("vector<pair<int,list<const char*>>>", std::vector<std::pair<int, std::list<const char*>>>{{1, {nullptr}}, {2, {}}}, "{ { 1, { nullptr } }, { 2, {  } } }");
  structural("tuple<pair<int,vector<int*>>>", std::make_tuple(std::make_pair(1, std::vector<int*>{nullptr})), "{ { 1, { nullptr } } }");
  structural("vector<vector<vector<int>>>", std::vector<std::vector<std::vector<int>>>{{{1}, {}}, {}}, "{ { { 1 }, {  } }, {  } }");
  structural("vector<tuple<int,pair<const char*,Custom>>>", std::vector<std::tuple<int, std::pair<const char*, Custom>>>{std::make_tuple(1, std::make_pair((const char*)nullptr, Custom{4}))}, "{ { 1, { nullptr, Custom<4> } } }");
  { int carr[3] = {1, 2, 3}; structural("int[3]", carr, "{ 1, 2, 3 }"); }
  // arrays of char are collections of characters (element-wise, embedded NULs included), not C strings - const or not
  { const char cc[6] = {'a', 'b', '\0', 'c', 'd', '\0'}; char mc[3] = {'x', '\0', 'y'}; const char c2[2][2] = {{'p', 'q'}, {'\0', 'r'}};
    std::string z(1, '\0');
    structural("const char[6] with embedded NULs", cc, "{ a, b, " + z + ", c, d, " + z + " }"); structural("char[3] with an embedded NUL", mc, "{ x, " + z + ", y }");
    structural("const char[2][2]", c2, "{ { p, q }, { " + z + ", r } }"); }
  // collections whose elements are built-in arrays: still element-wise, still null-safe
  { int m2[2][3] = {{1, 2, 3}, {4, 5, 6}}; structural("int[2][3]", m2, "{ { 1, 2, 3 }, { 4, 5, 6 } }"); }
  { const char* s2[2][2] = {{"a", nullptr}, {nullptr, "b"}}; structural("const char*[2][2] with nulls", s2, "{ { a, nullptr }, { nullptr, b } }"); }
  { std::vector<std::array<int, 2>> va{{{1, 2}}, {{3, 4}}}; structural("vector<array<int,2>>", va, "{ { 1, 2 }, { 3, 4 } }"); }
  // leaves inside structures keep default formatting under every base / fill / adjustment
  structural("vector<int> {255}", std::vector<int>{255}, "{ 255 }"); structural("pair<int,bool>", std::make_pair(255, true), "{ 255, 1 }");
  { Opaque<2> o; o.b[0] = 0x81; o.b[1] = 0xfe; std::ostringstream os; trompeloeil::print(os, std::vector<Opaque<2>>{o}); R.check("print(vector<opaque 2 bytes>)", "default", squeeze(os.str()), std::string("{ 2-byte object={ 0x81 0xfe } }"), "struct"); }
  // through a report and a trace record: null arguments print as nullptr inside the texts the library composes
  {
    g_reports.clear(); g_traces.clear();
    trompeloeil::set_reporter([](trompeloeil::severity s, char const*, unsigned long, std::string const& m) { g_reports.push_back(m); if (s == trompeloeil::severity::fatal) throw FatalRep{}; });
    MM m; Tr tr;
    {
      ALLOW_CALL(m, f(trompeloeil::_, trompeloeil::_));
      m.f(nullptr, std::pair<int*, int>(nullptr, 255));
    }
    R.check("trace record of f(null char*, {null int*, 255})", "tracer", g_traces.size() == 1 ? g_traces[0].substr(g_traces[0].find('\n') + 1) : std::string("?"), std::string("  param  _1 == nullptr\n  param  _2 == { nullptr, 255 }\n"), "report");
    {
      FORBID_CALL(m, f(trompeloeil::_, trompeloeil::_));
      try { m.f(nullptr, std::pair<int*, int>(nullptr, 7)); } catch (FatalRep&) {}
    }
    std::string rep = g_reports.empty() ? "?" : g_reports.back();
    R.check("forbidden-call report of f(null char*, {null int*, 7})", "reporter", rep.substr(rep.find('\n') + 1), std::string("  param  _1 == nullptr\n  param  _2 == { nullptr, 7 }\n"), "report");
    {
      MR mr; g_traces.clear(); g_reports.clear();
      { ALLOW_CALL(mr, g(trompeloeil::_, trompeloeil::_, trompeloeil::_)); mr.g(std::make_pair(1, 2), std::make_tuple(3, 'c'), Custom{4}); }
      R.check("trace record of g(const pair&, const tuple&, const Custom&)", "tracer", g_traces.size() == 1 ? g_traces[0].substr(g_traces[0].find('\n') + 1) : std::string("?"), std::string("  param  _1 == { 1, 2 }\n  param  _2 == { 3, c }\n  param  _3 == Custom<4>\n"), "report");
      try { mr.g(std::make_pair(1, 2), std::make_tuple(3, 'c'), Custom{4}); } catch (FatalRep&) {}
      std::string nm = g_reports.empty() ? "?" : g_reports.back();
      R.check("no-match report of g(const pair&, const tuple&, const Custom&)", "reporter", nm.substr(nm.find('\n') + 1), std::string("  param  _1 == { 1, 2 }\n  param  _2 == { 3, c }\n  param  _3 == Custom<4>\n"), "report");
      g_traces.clear(); g_reports.clear();
      { ALLOW_CALL(mr, h(trompeloeil::_, trompeloeil::_)); mr.h(std::unique_ptr<Widget>(), std::make_pair(7, 8)); mr.h(std::unique_ptr<Widget>(new Widget{3}), std::make_pair(7, 8)); }
      R.check("trace record of h(null unique_ptr<Widget> with printer<T>, pair&&)", "tracer", g_traces.size() == 2 ? g_traces[0].substr(g_traces[0].find('\n') + 1) : std::string("?"), std::string("  param  _1 == nullptr\n  param  _2 == { 7, 8 }\n"), "report");
      R.check("trace record of h(unique_ptr<Widget> with printer<T>, pair&&)", "tracer", g_traces.size() == 2 ? g_traces[1].substr(g_traces[1].find('\n') + 1) : std::string("?"), std::string("  param  _1 == widget#3\n  param  _2 == { 7, 8 }\n"), "report");
      try { mr.h(std::unique_ptr<Widget>(), std::make_pair(7, 8)); } catch (FatalRep&) {}
      nm = g_reports.empty() ? "?" : g_reports.back();
      R.check("no-match report of h(null unique_ptr<Widget> with printer<T>, pair&&)", "reporter", nm.substr(nm.find('\n') + 1), std::string("  param  _1 == nullptr\n  param  _2 == { 7, 8 }\n"), "report");
      g_traces.clear(); g_reports.clear();
    }
    {
      REQUIRE_CALL(m, f(trompeloeil::eq<const char*>(nullptr), trompeloeil::_));
      try { m.f("x", std::pair<int*, int>(nullptr, 1)); } catch (FatalRep&) {}
      std::string nm = g_reports.back();
      R.check("no-match report lists expected null", "reporter", std::string(nm.find("Expected  _1 == nullptr") != std::string::npos ? "has 'Expected  _1 == nullptr'" : nm), std::string("has 'Expected  _1 == nullptr'"), "report");
      g_reports.clear();
      m.f(nullptr, std::pair<int*, int>(nullptr, 1));
    }
  }
  return R.finish("type family (opaque structs of 1..40 bytes with three byte patterns, integers of four widths, bool, char, strings, raw/smart/function pointers incl. null, null-comparable classes, types with printer<T>, pairs, tuples of 0-3, vector/list/deque/set/map nested to depth 3 with nulls and custom printers at every depth) x all 81 prior stream states for leaves (27 without pending width for structures) against an independent reference formatter; hex dumps compared modulo white space",
                  "[\"reference formatter in engines/enum/c18_print.cpp\", \"sanitizer build: a null dereference or out-of-bounds read terminates the harness and is reported as a violation\", \"g++ 12 / libstdc++ stream semantics\"]");
}
