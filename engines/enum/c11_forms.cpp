// C11 (and C19: "every documented legal combination compiles"): every documented call form of the range matchers,
// in particular the one-element and zero-element variadic forms, must compile. Compiled with -fsyntax-only by the
// C11 check before the enumeration harness is built; a failure is reported as a violation with the compiler output.
#include <trompeloeil.hpp>
#include <array>
#include <list>
#include <vector>
using namespace trompeloeil;
void forms(const std::vector<int>& r)
{
  std::vector<int> c{1, 2};
  int ca[2] = {1, 2};
  bool b = false;
#define FORM(...) b = b || param_matches(__VA_ARGS__, std::ref(r))
  FORM(range_is()); FORM(range_is(1)); FORM(range_is(eq(1))); FORM(range_is(1, 2)); FORM(range_is(c)); FORM(range_is(ca));
  FORM(range_starts_with()); FORM(range_starts_with(1)); FORM(range_starts_with(eq(1))); FORM(range_starts_with(1, 2)); FORM(range_starts_with(c)); FORM(range_starts_with(ca));
  FORM(range_ends_with()); FORM(range_ends_with(1)); FORM(range_ends_with(eq(1))); FORM(range_ends_with(1, 2)); FORM(range_ends_with(c)); FORM(range_ends_with(ca));
  FORM(range_includes()); FORM(range_includes(1)); FORM(range_includes(eq(1))); FORM(range_includes(1, 2)); FORM(range_includes(c)); FORM(range_includes(ca));
  FORM(range_is_permutation()); FORM(range_is_permutation(1)); FORM(range_is_permutation(eq(1))); FORM(range_is_permutation(1, 2)); FORM(range_is_permutation(c)); FORM(range_is_permutation(ca));
  FORM(range_all_of(1)); FORM(range_all_of(gt(0))); FORM(range_any_of(1)); FORM(range_any_of(gt(0))); FORM(range_none_of(1)); FORM(range_none_of(gt(0)));
  FORM(range_is<std::vector<int>>(1, 2)); FORM(range_is_permutation<std::vector<int>>(1));
  (void)b;
}
