// C09 companion (sanitizer build, detect_stack_use_after_return=1): "plain clauses copy locals at creation".
// Every plain clause kind captures locals of a factory function whose frame is gone (and overwritten) when the call is made;
// the expectation must own its copies. The main C09 grid is built without sanitizers (compile time), so lifetime errors would
// only show there as wrong values by luck; here they are sanitizer reports.
#include <trompeloeil.hpp>
#include "enum_common.hpp"
#include <memory>
#include <string>
#include <vector>

en::Recorder R;
struct Fatal {};
struct ML {
  MAKE_MOCK1(f, int(int));
  MAKE_MOCK1(v, void(int));
  MAKE_MOCK1(s, std::string(int));
  MAKE_MOCK2(g, int(int, const std::string&));
};
using E = std::unique_ptr<trompeloeil::expectation>;
static int g_out = 0;
static std::string g_outs;
using trompeloeil::_;

// ---- factories: every local dies with the frame ----
__attribute__((noinline)) static E make_with(ML& m, int base) { int limit = base + 5; std::string word = "w" + std::to_string(base) + std::string(40, 'x'); return NAMED_ALLOW_CALL(m, g(_, _)).WITH(_1 < limit).WITH(_2 == word).RETURN(1); }
__attribute__((noinline)) static E make_with_v(ML& m, int base) { int limit = base + 5; return NAMED_ALLOW_CALL_V(m, f(_), .WITH(_1 < limit) .RETURN(2)); }
__attribute__((noinline)) static E make_se(ML& m, int base) { int k = base * 3; std::string tag = "tag" + std::to_string(base) + std::string(40, 'y'); int* out = &g_out; std::string* outs = &g_outs; return NAMED_ALLOW_CALL(m, v(_)).SIDE_EFFECT(*out = k + _1).SIDE_EFFECT(*outs = tag); }
__attribute__((noinline)) static E make_ret(ML& m, int base) { int k = base * 7; return NAMED_ALLOW_CALL(m, f(_)).RETURN(k + _1); }
__attribute__((noinline)) static E make_ret_s(ML& m, int base) { std::string val = "val" + std::to_string(base) + std::string(40, 'z'); return NAMED_ALLOW_CALL(m, s(_)).RETURN(val); }
__attribute__((noinline)) static E make_throw(ML& m, int base) { std::string what = "what" + std::to_string(base) + std::string(40, 'q'); return NAMED_ALLOW_CALL(m, f(_)).THROW(std::runtime_error(what)); }
__attribute__((noinline)) static E make_matcher_values(ML& m, int base) { int a = base; std::string w = "m" + std::to_string(base) + std::string(40, 'k'); return NAMED_ALLOW_CALL(m, g(trompeloeil::eq(a), trompeloeil::eq(w))).RETURN(3); }
// overwrites the stack region the factories used
__attribute__((noinline)) static int clobber(int seed) { volatile int pad[512]; for (int i = 0; i < 512; ++i) pad[i] = seed * 31 + i; int s = 0; for (int i = 0; i < 512; i += 97) s += pad[i]; return s; }

int main(int argc, char** argv) {
  R.prop = "C09"; R.args(argc, argv);
  trompeloeil::set_reporter([](trompeloeil::severity s, char const*, unsigned long, std::string const&) { if (s == trompeloeil::severity::fatal) throw Fatal{}; });
  auto chk = [](const std::string& what, int base, const std::string& got, const std::string& exp) { R.check("factory-made expectation, " + what, "base " + std::to_string(base), got, exp, "lifetime"); };
  for (int base : {0, 1, 7, 100}) {
    ML m;
    std::string word = "w" + std::to_string(base) + std::string(40, 'x');
    { E e = make_with(m, base); g_out += clobber(base);
      for (int x : {base + 4, base + 5}) for (const std::string& w : {word, std::string("other")}) {
        bool acc; try { m.g(x, w); acc = true; } catch (Fatal&) { acc = false; }
        chk("WITH(_1 < limit).WITH(_2 == word) on (" + std::to_string(x - base) + "+base," + (w == word ? "word" : "other") + ")", base, acc ? "accept" : "reject", (x < base + 5 && w == word) ? "accept" : "reject");
      } }
    { E e = make_with_v(m, base); g_out += clobber(base + 1);
      for (int x : {base + 4, base + 5}) { bool acc; try { m.f(x); acc = true; } catch (Fatal&) { acc = false; } chk("_V form WITH(_1 < limit) on " + std::to_string(x - base) + "+base", base, acc ? "accept" : "reject", x < base + 5 ? "accept" : "reject"); } }
    { E e = make_se(m, base); g_out = clobber(base + 2); g_outs.clear(); m.v(4);
      chk("SIDE_EFFECT(*out = k + _1)", base, std::to_string(g_out), std::to_string(base * 3 + 4)); chk("SIDE_EFFECT(*outs = tag)", base, g_outs, "tag" + std::to_string(base) + std::string(40, 'y')); }
    { E e = make_ret(m, base); g_out += clobber(base + 3); chk("RETURN(k + _1)", base, std::to_string(m.f(2)), std::to_string(base * 7 + 2)); chk("RETURN(k + _1) again", base, std::to_string(m.f(3)), std::to_string(base * 7 + 3)); }
    { E e = make_ret_s(m, base); g_out += clobber(base + 4); std::string want = "val" + std::to_string(base) + std::string(40, 'z'); chk("RETURN(val) std::string", base, m.s(0), want); chk("RETURN(val) std::string, second call", base, m.s(1), want); }
    { E e = make_throw(m, base); g_out += clobber(base + 5); std::string got = "nothing"; try { m.f(0); } catch (std::runtime_error& x) { got = x.what(); } catch (...) { got = "other"; }
      chk("THROW(std::runtime_error(what))", base, got, "what" + std::to_string(base) + std::string(40, 'q')); }
    { E e = make_matcher_values(m, base); g_out += clobber(base + 6); std::string w = "m" + std::to_string(base) + std::string(40, 'k');
      for (int x : {base, base + 1}) { bool acc; try { m.g(x, w); acc = true; } catch (Fatal&) { acc = false; } chk("matcher operands eq(a), eq(w) on " + std::to_string(x - base) + "+base", base, acc ? "accept" : "reject", x == base ? "accept" : "reject"); } }
  }
  return R.finish("every plain clause kind (WITH, SIDE_EFFECT, RETURN, THROW, matcher operands; plain and variadic macro) capturing int and std::string locals of a factory function, used after the factory's frame is gone and overwritten; "
                  "AddressSanitizer with detect_stack_use_after_return decides lifetime, the values decide that the copies were taken at creation", "[\"sanitizer build\"]");
}
