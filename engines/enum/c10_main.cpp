// C10: scalar matchers and combinators - driver of the generated term chunks plus the string / regex / nullptr families.
#include "c10_scalar.hpp"
#include <limits>
#include <string>

namespace c10 { en::Recorder R; }
using c10::R;
void c10_all_chunks();
void c10_deep_chunks();
extern const long c10_generated_terms;
extern const long c10_generated_deep_terms;

struct M {
  MAKE_MOCK1(f, void(int));
  MAKE_MOCK1(s, void(const char*));
};
struct Fatal {};

int main(int argc, char** argv) {
  using namespace trompeloeil;
  R.prop = "C10"; R.args(argc, argv);
  c10_all_chunks();
  if (R.thorough()) c10_deep_chunks();  // depth-3 terms

  // ---- strings: eq/ne/lt/le/gt/ge on std::string arguments, every operand x every argument ----
  const std::vector<std::string> strs = {"", "a", "ab", "b", "B"};
  for (auto& v : strs) for (auto& x : strs) {
    std::string in = "std::string \"" + x + "\"";
    R.check("eq(\"" + v + "\")", in, param_matches(eq(v), std::ref(x)), x == v, "str");
    R.check("ne(\"" + v + "\")", in, param_matches(ne(v), std::ref(x)), x != v, "str");
    R.check("lt(\"" + v + "\")", in, param_matches(lt(v), std::ref(x)), x < v, "str");
    R.check("le(\"" + v + "\")", in, param_matches(le(v), std::ref(x)), x <= v, "str");
    R.check("gt(\"" + v + "\")", in, param_matches(gt(v), std::ref(x)), x > v, "str");
    R.check("ge(\"" + v + "\")", in, param_matches(ge(v), std::ref(x)), x >= v, "str");
    R.check("eq<std::string>(\"" + v + "\")", in, param_matches(eq<std::string>(v), std::ref(x)), x == v, "str");
    R.check("!eq(\"" + v + "\")", in, param_matches(!eq(v), std::ref(x)), x != v, "str");
    R.check("any_of(\"" + v + "\",eq(\"a\"))", in, param_matches(any_of(v, eq(std::string("a"))), std::ref(x)), x == v || x == "a", "str");
    R.check("none_of(\"" + v + "\",lt(\"a\"))", in, param_matches(none_of(v, lt(std::string("a"))), std::ref(x)), !(x == v || x < "a"), "str");
    // operands held in variables that are used for several matchers: each matcher owns a copy of its operand
    std::string key = v;
    auto m1 = eq(key); auto m2 = ne(key); auto m3 = all_of(ge(key), le(key));
    R.check("eq(key) built first of three from the same lvalue \"" + v + "\"", in, param_matches(m1, std::ref(x)), x == v, "str");
    R.check("ne(key) built second from the same lvalue \"" + v + "\"", in, param_matches(m2, std::ref(x)), x != v, "str");
    R.check("all_of(ge(key),le(key)) built third from the same lvalue \"" + v + "\"", in, param_matches(m3, std::ref(x)), x == v, "str");
    R.check("operand lvalue unchanged after building matchers from it (\"" + v + "\")", in, key, v, "str");
    auto sub = eq(key); auto outer1 = any_of(sub, eq(std::string("zz"))); auto outer2 = none_of(sub);
    R.check("any_of(sub,...) with sub-matcher variable reused (\"" + v + "\")", in, param_matches(outer1, std::ref(x)), x == v, "str");
    R.check("none_of(sub) with the same sub-matcher variable (\"" + v + "\")", in, param_matches(outer2, std::ref(x)), x != v, "str");
    R.check("sub itself after being nested twice (\"" + v + "\")", in, param_matches(sub, std::ref(x)), x == v, "str");
  }
  // ---- a named matcher object used under * and ! keeps its operand for the next use (operand with a move that differs from a copy) ----
  {
    const std::string token(40, 't'), other(40, 'o');
    for (const std::string* sub : {&token, &other}) {
      auto is_token = eq(token); auto has_t = re("tt");
      auto d1 = *is_token; auto n1 = !is_token; auto d2 = *is_token; auto dn = *!is_token; auto r1 = *has_t; auto r2 = !has_t; auto r3 = *has_t;
      const std::string* ps = sub; const std::string& x = *sub; bool same = x == token; std::string in = same ? "the token" : "another string";
      R.check("*named (first use)", "string* -> " + in, param_matches(d1, std::ref(ps)), same, "named"); R.check("!named (after *named)", in, param_matches(n1, std::ref(x)), !same, "named");
      R.check("*named (second use)", "string* -> " + in, param_matches(d2, std::ref(ps)), same, "named"); R.check("*!named", "string* -> " + in, param_matches(dn, std::ref(ps)), !same, "named");
      R.check("named itself after four uses", in, param_matches(is_token, std::ref(x)), same, "named");
      R.check("*re (first use)", "string* -> " + in, param_matches(r1, std::ref(ps)), same, "named"); R.check("!re (after *re)", in, param_matches(r2, std::ref(x)), !same, "named"); R.check("*re (second use)", "string* -> " + in, param_matches(r3, std::ref(ps)), same, "named");
      auto anyn = any_of(is_token, eq(std::string("zz"))); auto alln = all_of(is_token); auto nonen = none_of(is_token);
      R.check("any_of(named,...)", in, param_matches(anyn, std::ref(x)), same, "named"); R.check("all_of(named)", in, param_matches(alln, std::ref(x)), same, "named"); R.check("none_of(named)", in, param_matches(nonen, std::ref(x)), !same, "named");
      R.check("named itself after the combinators", in, param_matches(is_token, std::ref(x)), same, "named");
    }
  }
  // ---- doubles incl. NaN (a partially ordered domain: x <= v is not !(v < x)) ----
  {
    const double nan = std::numeric_limits<double>::quiet_NaN();
    const std::vector<double> ds = {nan, -1.0, 0.0, 1.5};
    auto nm = [](double d) { return d != d ? std::string("NaN") : std::to_string(d); };
    for (double v : ds) for (double x : ds) {
      std::string in = "double " + nm(x);
      R.check("eq(" + nm(v) + ")", in, param_matches(eq(v), std::ref(x)), x == v, "double"); R.check("ne(" + nm(v) + ")", in, param_matches(ne(v), std::ref(x)), x != v, "double");
      R.check("lt(" + nm(v) + ")", in, param_matches(lt(v), std::ref(x)), x < v, "double"); R.check("le(" + nm(v) + ")", in, param_matches(le(v), std::ref(x)), x <= v, "double");
      R.check("gt(" + nm(v) + ")", in, param_matches(gt(v), std::ref(x)), x > v, "double"); R.check("ge(" + nm(v) + ")", in, param_matches(ge(v), std::ref(x)), x >= v, "double");
      R.check("le<double>(" + nm(v) + ")", in, param_matches(le<double>(v), std::ref(x)), x <= v, "double"); R.check("!ge(" + nm(v) + ")", in, param_matches(!ge(v), std::ref(x)), !(x >= v), "double");
      R.check("all_of(ge(" + nm(v) + "),le(" + nm(v) + "))", in, param_matches(all_of(ge(v), le(v)), std::ref(x)), x >= v && x <= v, "double");
    }
  }
  // ---- re(s, flags): found in a non-null string ----
  struct Pat { const char* s; bool icase; };
  const Pat pats[] = {{"^$", false}, {"a*", false}, {"", false}, {"^a", false}, {"b$", false}, {"ab", false}, {"B", true}, {"^[ab]+$", false}, {"a.b", false},
                      {"(ab)\\1", false}, {"^(a|b)\\1", false}, {"^(.)b\\1$", true}, {"(a)|(b)", false}};   // groups and back-references
  const std::vector<const char*> subjects = {nullptr, "", "a", "ab", "b", "ba", "aXb", "B", "abab", "abba", "aba", "bb", "aBA"};
  for (auto& p : pats) for (const char* x : subjects) {
    std::regex rx(p.s, p.icase ? std::regex_constants::icase : std::regex_constants::ECMAScript);
    bool expect = x != nullptr && std::regex_search(x, rx);
    std::string t = std::string("re(\"") + p.s + "\"" + (p.icase ? ",icase" : "") + ")", in = x ? std::string("const char* \"") + x + "\"" : std::string("const char* null");
    auto mk = [&]() { return p.icase ? re(p.s, std::regex_constants::icase) : re(p.s); };
    R.check(t, in, param_matches(mk(), std::ref(x)), expect, "re");
    R.check("!" + t, in, param_matches(!mk(), std::ref(x)), !expect, "re");
    R.check("any_of(" + t + ",re(\"^zz\"))", in, param_matches(any_of(mk(), re("^zz")), std::ref(x)), expect, "re");
    R.check("none_of(" + t + ")", in, param_matches(none_of(mk()), std::ref(x)), !expect, "re");
    if (x) {
      std::string sx = x;
      R.check(t, "std::string \"" + sx + "\"", param_matches(mk(), std::ref(sx)), expect, "re");
      R.check("re<std::string>(\"" + std::string(p.s) + "\")", "std::string \"" + sx + "\"", param_matches(p.icase ? re<std::string>(p.s, std::regex_constants::icase) : re<std::string>(p.s), std::ref(sx)), expect, "re");
      const char* px = x; const char** ppx = &px;
      R.check("*" + t, std::string("const char** -> \"") + x + "\"", param_matches(*mk(), std::ref(ppx)), expect, "re");
    }
  }
  // ---- re(s, match flags) and re(s, syntax flags, match flags) ----
  {
    namespace rc = std::regex_constants;
    const char* ps[] = {"^a", "b$", "a", "^$"};
    for (const char* p : ps) for (const char* x : subjects) {
      std::string in = x ? std::string("const char* \"") + x + "\"" : std::string("const char* null");
      std::regex rx(p), rxi(p, rc::icase);
      R.check(std::string("re(\"") + p + "\",match_not_bol)", in, param_matches(re(p, rc::match_not_bol), std::ref(x)), x != nullptr && std::regex_search(x, rx, rc::match_not_bol), "re");
      R.check(std::string("re(\"") + p + "\",match_not_eol)", in, param_matches(re(p, rc::match_not_eol), std::ref(x)), x != nullptr && std::regex_search(x, rx, rc::match_not_eol), "re");
      R.check(std::string("re(\"") + p + "\",icase,match_not_bol)", in, param_matches(re(p, rc::icase, rc::match_not_bol), std::ref(x)), x != nullptr && std::regex_search(x, rxi, rc::match_not_bol), "re");
      R.check(std::string("!re(\"") + p + "\",icase,match_not_eol)", in, param_matches(!re(p, rc::icase, rc::match_not_eol), std::ref(x)), !(x != nullptr && std::regex_search(x, rxi, rc::match_not_eol)), "re");
    }
  }
  // ---- the documented guard idiom: a null test first, then an operand that must not see a null pointer ----
  {
    const std::string expected = "foo";
    for (const char* x : {(const char*)nullptr, "foo", "bar", ""}) {
      std::string in = x ? std::string("const char* \"") + x + "\"" : std::string("const char* null");
      bool is_foo = x && expected == x;
      R.check("any_of<const char*>(nullptr,expected)", in, param_matches(any_of<const char*>(nullptr, expected), std::ref(x)), x == nullptr || is_foo, "guard");
      R.check("any_of(eq(nullptr),eq(expected))", in, param_matches(any_of(eq(nullptr), eq(expected)), std::ref(x)), x == nullptr || is_foo, "guard");
      R.check("all_of(ne(nullptr),eq(expected))", in, param_matches(all_of(ne(nullptr), eq(expected)), std::ref(x)), is_foo, "guard");
      R.check("all_of(ne(nullptr),ne(expected),re(\"a\"))", in, param_matches(all_of(ne(nullptr), ne(expected), re("a")), std::ref(x)), x && !is_foo && std::string(x).find('a') != std::string::npos, "guard");
      R.check("none_of(nullptr,expected)", in, param_matches(none_of(eq(nullptr), eq(expected)), std::ref(x)), x != nullptr && !is_foo, "guard");
      R.check("!any_of(eq(nullptr),eq(expected))", in, param_matches(!any_of(eq(nullptr), eq(expected)), std::ref(x)), x != nullptr && !is_foo, "guard");
    }
  }
  // ---- operands of a wider arithmetic type than the parameter: compared by the usual conversions, never narrowed first ----
  {
    const std::vector<double> dv = {0.5, 2.0, 2.5, -1.0, 3.25};
    for (double v : dv) for (int x : c10::DOM) {
      std::string in = "int " + std::to_string(x), vs = std::to_string(v);
      R.check("plain " + vs, in, param_matches(v, std::ref(x)), x == v, "wide");
      R.check("eq(" + vs + ")", in, param_matches(eq(v), std::ref(x)), x == v, "wide");
      R.check("ne(" + vs + ")", in, param_matches(ne(v), std::ref(x)), x != v, "wide");
      R.check("lt(" + vs + ")", in, param_matches(lt(v), std::ref(x)), x < v, "wide");
      R.check("ge(" + vs + ")", in, param_matches(ge(v), std::ref(x)), x >= v, "wide");
      R.check("any_of(" + vs + ",7)", in, param_matches(any_of(v, 7), std::ref(x)), x == v || x == 7, "wide");
      R.check("none_of(" + vs + ")", in, param_matches(none_of(v), std::ref(x)), !(x == v), "wide");
      R.check("!all_of(" + vs + ")", in, param_matches(!all_of(v), std::ref(x)), !(x == v), "wide");
      c10::S s{x, 7};
      R.check("MEMBER_IS(&S::m," + vs + ")", "S{" + std::to_string(x) + ",7}", param_matches(MEMBER_IS(&c10::S::m, v), std::ref(s)), x == v, "wide");
      int* px = &x;
      R.check("*any_of(" + vs + ",5)", "int* ->" + std::to_string(x), param_matches(*any_of(v, 5), std::ref(px)), x == v || x == 5, "wide");
    }
    const long long big = 4294967297LL;   // 2^32 + 1: equal to 1 only after narrowing to int
    for (int x : c10::DOM) {
      std::string in = "int " + std::to_string(x);
      R.check("plain 4294967297LL", in, param_matches(big, std::ref(x)), (long long)x == big, "wide");
      R.check("any_of(4294967297LL,2)", in, param_matches(any_of(big, 2), std::ref(x)), (long long)x == big || x == 2, "wide");
    }
    for (int v : {300, 301, 44}) for (unsigned char x : {(unsigned char)44, (unsigned char)45, (unsigned char)0}) {
      std::string in = "unsigned char " + std::to_string((int)x);
      R.check("plain " + std::to_string(v), in, param_matches(v, std::ref(x)), (int)x == v, "wide");
      R.check("any_of(" + std::to_string(v) + ",0)", in, param_matches(any_of(v, 0), std::ref(x)), (int)x == v || x == 0, "wide");
    }
  }
  // ---- std::string arguments with an embedded NUL: the whole string is searched ----
  {
    const std::vector<std::string> subj = {std::string("a\0b", 3), std::string("\0b", 2), std::string("ab\0", 3), std::string("\0", 1)};
    const char* ps[] = {"b", "^a$", "a.b", "^$", "b$", "^.$"};
    for (const char* p : ps) for (auto& x : subj) {
      std::regex rx(p); bool expect = std::regex_search(x.begin(), x.end(), rx);
      std::string shown; for (char c : x) shown += c ? std::string(1, c) : std::string("\\0");
      R.check(std::string("re(\"") + p + "\")", "std::string with NUL \"" + shown + "\"", param_matches(re(p), std::ref(x)), expect, "re");
      R.check(std::string("!re(\"") + p + "\")", "std::string with NUL \"" + shown + "\"", param_matches(!re(p), std::ref(x)), !expect, "re");
    }
  }
  // ---- nullptr comparisons ----
  { int v = 1; int* np = nullptr; int* p = &v;
    R.check("eq(nullptr)", "int* null", param_matches(eq(nullptr), std::ref(np)), true, "nullptr"); R.check("eq(nullptr)", "int* non-null", param_matches(eq(nullptr), std::ref(p)), false, "nullptr");
    R.check("ne(nullptr)", "int* null", param_matches(ne(nullptr), std::ref(np)), false, "nullptr"); R.check("ne(nullptr)", "int* non-null", param_matches(ne(nullptr), std::ref(p)), true, "nullptr");
    std::unique_ptr<int> un, up(new int(2));
    R.check("eq(nullptr)", "unique_ptr null", param_matches(eq(nullptr), std::ref(un)), true, "nullptr"); R.check("ne(nullptr)", "unique_ptr non-null", param_matches(ne(nullptr), std::ref(up)), true, "nullptr");
    R.check("!eq(nullptr)", "unique_ptr null", param_matches(!eq(nullptr), std::ref(un)), false, "nullptr"); }
  // ---- through a real mock function: a systematic slice (every 7th of a fixed list of terms, all argument values) ----
  trompeloeil::set_reporter([](trompeloeil::severity s, char const*, unsigned long, std::string const&) { if (s == trompeloeil::severity::fatal) throw Fatal{}; });
  for (int a : c10::DOM) for (int b : c10::DOM) for (int x : c10::DOM) {
    M m; bool acc; int ops[2] = {a, b};
#define VIA_MOCK(desc, expr) { { REQUIRE_CALL(m, f(expr)).TIMES(AT_MOST(1)); try { m.f(x); acc = true; } catch (Fatal&) { acc = false; } } R.check(std::string("mock call f(") + c10::subst(desc, ops) + ")", std::to_string(x), acc, c10::ref_eval(desc, ops, x), "mock"); }
    VIA_MOCK("eq($0)", eq(a)) VIA_MOCK("!lt($0)", !lt(a)) VIA_MOCK("any_of(eq($0),gt($1))", any_of(eq(a), gt(b))) VIA_MOCK("all_of(ge($0),le($1))", all_of(ge(a), le(b)))
    VIA_MOCK("none_of($0,$1)", none_of(a, b)) VIA_MOCK("$0", a) VIA_MOCK("_", _) VIA_MOCK("neT($0)", ne<int>(a)) VIA_MOCK("!any_of(ltT($0),$1)", !any_of(lt<int>(a), b))
#undef VIA_MOCK
  }
  R.notes.push_back("generated terms: " + std::to_string(c10_generated_terms) + " of depth <= 2 (both tiers), " + std::to_string(c10_generated_deep_terms) + " of depth 3 (thorough tier only)");
  return R.finish("every matcher term up to depth 2 (leaves: _, ANY, eq/ne/lt/le/gt/ge duck-typed and typed, plain values; !m; *m on raw/unique/shared pointers incl. null; any_of/all_of/none_of with 1-3 operands; MEMBER_IS) x every operand value in {-1..3} x every argument value in {-1..3}; strings {\"\",a,ab,b,B}; 9 regular expressions x 8 subjects incl. null and empty; param_matches compared with the denotational evaluator; a systematic slice also through a real mock call",
                  "[\"reference evaluator in engines/enum/c10_scalar.hpp\", \"value domain {-1,0,1,2,3}\", \"term depth <= 2\"]");
}
