// C10: scalar matchers and combinators. Shared part of the generated term chunks: the reference (denotational)
// evaluator works on the term's abstract syntax (a string emitted by the generator next to the C++ expression).
#pragma once
#include <trompeloeil.hpp>
#include "enum_common.hpp"
#include <memory>
#include <regex>

namespace c10 {

extern en::Recorder R;
static const int DOM[] = {-1, 0, 1, 2, 3};
constexpr int NDOM = 5;

// ---- reference evaluator over the abstract syntax -------------------------------------------------
// term := '_' | 'ANY' | cmp '(' '$'i ')' | cmp 'T(' '$'i ')' | '$'i | '!' term | comb '(' term {',' term} ')'
struct Ref {
  const char* p; const int* ops;
  static bool starts(const char* s, const char* w) { return strncmp(s, w, strlen(w)) == 0; }
  int operand() { ++p; int i = *p - '0'; ++p; return ops[i]; }  // "$i"
  bool term(int x) {
    if (*p == '!') { ++p; return !term(x); }
    if (*p == '_') { ++p; return true; }
    if (starts(p, "ANY")) { p += 3; return true; }
    if (*p == '$') { return x == operand(); }
    static const char* cmps[] = {"eq", "ne", "lt", "le", "gt", "ge"};
    for (int c = 0; c < 6; ++c) if (starts(p, cmps[c]) && (p[2] == '(' || p[2] == 'T')) {
      p += 2; if (*p == 'T') ++p; ++p;  // '('
      int v = operand(); ++p;           // ')'
      switch (c) { case 0: return x == v; case 1: return x != v; case 2: return x < v; case 3: return x <= v; case 4: return x > v; default: return x >= v; }
    }
    int comb = starts(p, "any_of") ? 0 : starts(p, "all_of") ? 1 : starts(p, "none_of") ? 2 : -1;
    if (comb >= 0) {
      p += comb == 2 ? 7 : 6; ++p;  // name and '('
      bool any = false, all = true;
      for (;;) { bool r = term(x); any = any || r; all = all && r; if (*p == ',') { ++p; continue; } break; }
      ++p;  // ')'
      return comb == 0 ? any : comb == 1 ? all : !any;
    }
    fprintf(stderr, "reference evaluator: cannot parse '%s'\n", p); abort();
  }
};
inline bool ref_eval(const char* desc, const int* ops, int x) { Ref r{desc, ops}; return r.term(x); }

inline std::string subst(const char* desc, const int* ops) {
  std::string s;
  for (const char* q = desc; *q; ++q) { if (*q == '$') { s += std::to_string(ops[q[1] - '0']); ++q; } else s += *q; }
  return s;
}

// a user-defined "fancy" pointer: constructible from nullptr, comparable only with itself (so that p != nullptr converts the nullptr)
template <typename T> struct fancy_ptr {
  T* p = nullptr;
  fancy_ptr() = default;
  fancy_ptr(std::nullptr_t) {}
  explicit fancy_ptr(T* q) : p(q) {}
  T& operator*() const { return *p; }
  friend bool operator==(const fancy_ptr& a, const fancy_ptr& b) { return a.p == b.p; }
  friend bool operator!=(const fancy_ptr& a, const fancy_ptr& b) { return a.p != b.p; }
};
// ---- runners: all operand values x all argument values ---------------------------------------------
template <typename F> void run0(const char* desc, F f) {
  int ops[1] = {0}; auto m = f();
  for (int x : DOM) R.check(desc, std::to_string(x), trompeloeil::param_matches(m, std::ref(x)), ref_eval(desc, ops, x), "int");
}
template <typename F> void run1(const char* desc, F f) {
  for (int a : DOM) { int ops[1] = {a}; auto m = f(a); std::string t = subst(desc, ops);
    for (int x : DOM) R.check(t, std::to_string(x), trompeloeil::param_matches(m, std::ref(x)), ref_eval(desc, ops, x), "int"); }
}
template <typename F> void run2(const char* desc, F f) {
  for (int a : DOM) for (int b : DOM) { int ops[2] = {a, b}; auto m = f(a, b); std::string t = subst(desc, ops);
    for (int x : DOM) R.check(t, std::to_string(x), trompeloeil::param_matches(m, std::ref(x)), ref_eval(desc, ops, x), "int"); }
}
template <typename F> void run3(const char* desc, F f) {
  for (int a : DOM) for (int b : DOM) for (int c : DOM) { int ops[3] = {a, b, c}; auto m = f(a, b, c); std::string t = subst(desc, ops);
    for (int x : DOM) R.check(t, std::to_string(x), trompeloeil::param_matches(m, std::ref(x)), ref_eval(desc, ops, x), "int"); }
}
// pointer arguments: "*term" accepts exactly non-null pointers whose pointee the term accepts
template <typename F> void runp(const char* desc, bool negate_outer, F f) {
  for (int a : DOM) for (int b : DOM) {
    int ops[2] = {a, b}; auto m = f(a, b); std::string t = std::string(negate_outer ? "!*" : "*") + subst(desc, ops);
    for (int k = -1; k < NDOM; ++k) {
      int val = k >= 0 ? DOM[k] : 0;
      bool inner = k >= 0 && ref_eval(desc, ops, val);
      bool expect = negate_outer ? !inner : inner;
      std::string in = k < 0 ? "null" : "->" + std::to_string(val);
      int* raw = k >= 0 ? &val : nullptr;
      R.check(t, "int* " + in, trompeloeil::param_matches(m, std::ref(raw)), expect, "ptr");
      const int* craw = raw;
      R.check(t, "const int* " + in, trompeloeil::param_matches(m, std::ref(craw)), expect, "ptr");
      std::unique_ptr<int> up(k >= 0 ? new int(val) : nullptr);
      R.check(t, "unique_ptr<int> " + in, trompeloeil::param_matches(m, std::ref(up)), expect, "ptr");
      std::shared_ptr<int> sp(k >= 0 ? new int(val) : nullptr);
      R.check(t, "shared_ptr<int> " + in, trompeloeil::param_matches(m, std::ref(sp)), expect, "ptr");
      fancy_ptr<int> fp = k >= 0 ? fancy_ptr<int>(&val) : fancy_ptr<int>(nullptr);
      R.check(t, "fancy_ptr<int> " + in, trompeloeil::param_matches(m, std::ref(fp)), expect, "ptr");
    }
  }
}
struct S { int m; int other; };
template <typename F> void runm(const char* desc, F f) {
  for (int a : DOM) for (int b : DOM) { int ops[2] = {a, b}; auto m = f(a, b); std::string t = "MEMBER_IS(&S::m," + subst(desc, ops) + ")";
    for (int x : DOM) { S s{x, 7}; R.check(t, "S{" + std::to_string(x) + ",7}", trompeloeil::param_matches(m, std::ref(s)), ref_eval(desc, ops, x), "member"); } }
}

}  // namespace c10

#define T0(desc, expr) c10::run0(desc, []() { return expr; });
#define T1(desc, expr) c10::run1(desc, [](int a) { return expr; });
#define T2(desc, expr) c10::run2(desc, [](int a, int b) { (void)b; return expr; });
#define T3(desc, expr) c10::run3(desc, [](int a, int b, int c) { (void)b; (void)c; return expr; });
#define TP(desc, expr) c10::runp(desc, false, [](int a, int b) { (void)a; (void)b; return *(expr); });
#define TNP(desc, expr) c10::runp(desc, true, [](int a, int b) { (void)a; (void)b; return !*(expr); });
#define TM(desc, expr) c10::runm(desc, [](int a, int b) { (void)a; (void)b; return MEMBER_IS(&c10::S::m, expr); });
