// C09: shared declarations of the generated argument-passing grid.
#pragma once
#include <trompeloeil.hpp>
#include "enum_common.hpp"
#include <memory>

extern en::Recorder R;
extern int g_sink;
struct Cnt {
  int v;
  static int copies, moves;
  static void reset() { copies = moves = 0; }
  explicit Cnt(int v_) : v(v_) {}
  Cnt(const Cnt& o) : v(o.v) { ++copies; }
  Cnt(Cnt&& o) noexcept : v(o.v) { ++moves; }
  Cnt& operator=(const Cnt& o) { v = o.v; ++copies; return *this; }
  Cnt& operator=(Cnt&& o) noexcept { v = o.v; ++moves; return *this; }
};
