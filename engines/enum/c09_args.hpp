// C09: shared declarations of the generated argument-passing grid.
#pragma once
#include <trompeloeil.hpp>
#include "enum_common.hpp"
#include <memory>

extern en::Recorder R;
// copyable, with a move constructor that is NOT noexcept: an rvalue must still be moved, not copied
struct Cnt2 {
  int v;
  static int copies, moves;
  static void reset() { copies = moves = 0; }
  explicit Cnt2(int v_) : v(v_) {}
  Cnt2(const Cnt2& o) : v(o.v) { ++copies; }
  Cnt2(Cnt2&& o) : v(o.v) { ++moves; o.v = -1; }
  Cnt2& operator=(const Cnt2&) = default;
};
extern int g_sink;
struct Cnt;
inline int constness(Cnt&) { return 0; }         // what a clause sees when it names a T& parameter: a non-const lvalue
inline int constness(const Cnt&) { return 1; }
struct Cnt {
  int v;
  static int copies, moves;
  static void reset() { copies = moves = 0; }
  explicit Cnt(int v_) : v(v_) {}
  Cnt(const Cnt& o) : v(o.v) { ++copies; }
  Cnt(Cnt&& o) noexcept : v(o.v) { ++moves; }
  Cnt& operator=(const Cnt& o) { v = o.v; ++copies; return *this; }
  Cnt& operator=(Cnt&& o) noexcept { v = o.v; ++moves; return *this; }
};
