// C09: _1.._15 alias the caller's arguments in every clause kind, for every arity, position, passing mode and mock kind;
// plain clauses copy locals at creation, LR_ clauses see them at call time.
#include "c09_args.hpp"

en::Recorder R;
int g_sink = 0;
int Cnt::copies = 0;
int Cnt::moves = 0;
int Cnt2::copies = 0;
int Cnt2::moves = 0;
void c09_all_chunks(bool all_arities);
extern const long c09_generated_functions;

struct ML {
  MAKE_MOCK1(f, int(int));
  MAKE_MOCK1(v, void(int));
};
struct Fatal {};

static void locals() {
  using trompeloeil::_;
  auto chk = [](const char* what, int got, int exp) { R.check(std::string("locals: ") + what, "creation-time value 1, call-time value 2", std::to_string(got), std::to_string(exp), "locals"); };
  ML m;
  // WITH: a plain clause compares with the copy taken at creation, LR_WITH with the variable as it is at the call
  { int x = 1; REQUIRE_CALL(m, f(_)).WITH(_1 == x).RETURN(0); x = 2; bool acc; try { m.f(1); acc = true; } catch (Fatal&) { acc = false; } chk("WITH(_1 == x) accepts the creation-time value", acc, 1); }
  { int x = 1; REQUIRE_CALL(m, f(_)).WITH(_1 == x).TIMES(AT_MOST(1)).RETURN(0); x = 2; bool acc; try { m.f(2); acc = true; } catch (Fatal&) { acc = false; } chk("WITH(_1 == x) rejects the call-time value", acc, 0); }
  { int x = 1; REQUIRE_CALL(m, f(_)).LR_WITH(_1 == x).RETURN(0); x = 2; bool acc; try { m.f(2); acc = true; } catch (Fatal&) { acc = false; } chk("LR_WITH(_1 == x) accepts the call-time value", acc, 1); }
  { int x = 1; REQUIRE_CALL(m, f(_)).LR_WITH(_1 == x).TIMES(AT_MOST(1)).RETURN(0); x = 2; bool acc; try { m.f(1); acc = true; } catch (Fatal&) { acc = false; } chk("LR_WITH(_1 == x) rejects the creation-time value", acc, 0); }
  // RETURN / LR_RETURN
  { int x = 1; REQUIRE_CALL(m, f(_)).RETURN(x); x = 2; chk("RETURN(x) returns the creation-time value", m.f(0), 1); }
  { int x = 1; REQUIRE_CALL(m, f(_)).LR_RETURN(x); x = 2; chk("LR_RETURN(x) returns the call-time value", m.f(0), 2); }
  // THROW / LR_THROW
  { int x = 1; REQUIRE_CALL(m, f(_)).THROW(x); x = 2; int t = -1; try { m.f(0); } catch (int e) { t = e; } chk("THROW(x) throws the creation-time value", t, 1); }
  { int x = 1; REQUIRE_CALL(m, f(_)).LR_THROW(x); x = 2; int t = -1; try { m.f(0); } catch (int e) { t = e; } chk("LR_THROW(x) throws the call-time value", t, 2); }
  // SIDE_EFFECT / LR_SIDE_EFFECT (a plain side effect works on its own copy: the caller's variable is not written)
  { int x = 1; int* out = &g_sink; g_sink = 0; REQUIRE_CALL(m, v(_)).SIDE_EFFECT(*out = x * 10); x = 2; m.v(0); chk("SIDE_EFFECT(... x ...) uses the creation-time value", g_sink, 10); }
  { int x = 1; g_sink = 0; REQUIRE_CALL(m, v(_)).LR_SIDE_EFFECT(g_sink = x * 10); x = 2; m.v(0); chk("LR_SIDE_EFFECT(... x ...) uses the call-time value", g_sink, 20); }
  { int x = 1; REQUIRE_CALL(m, v(_)).LR_SIDE_EFFECT(x = _1); m.v(42); chk("LR_SIDE_EFFECT(x = _1) writes the caller's variable", x, 42); }
  // several calls: the copy is taken once, the reference is followed every time
  { int x = 1; REQUIRE_CALL(m, f(_)).RETURN(x).TIMES(2); REQUIRE_CALL(m, f(5)).LR_RETURN(x).TIMES(2); x = 2; int a = m.f(5); x = 3; int b = m.f(5); int c = m.f(0); x = 4; int d = m.f(0);
    chk("LR_RETURN follows the variable across calls", a * 10 + b, 23); chk("RETURN keeps the creation-time copy across calls", c * 10 + d, 11); }
}

int main(int argc, char** argv) {
  R.prop = "C09"; R.args(argc, argv);
  trompeloeil::set_reporter([](trompeloeil::severity s, char const*, unsigned long, std::string const& m) { if (s == trompeloeil::severity::fatal) { (void)m; throw Fatal{}; } });
  try {
    c09_all_chunks(true);  // the whole grid is cheap to run once it is compiled: both tiers run all arities
  } catch (Fatal&) {
    R.check("a call of the grid was rejected by the library (a WITH over the other positions failed: positions permuted?)", "grid", std::string("fatal report"), std::string("accepted"), "grid");
  }
  locals();
  R.notes.push_back("generated mock functions compiled: " + std::to_string(c09_generated_functions) + "; all arities 0..15 run in both tiers");
  return R.finish("one generated mock function per (arity 0..15, probed position, passing mode {int, T&, const T&, T&&, T*, by value, move-only by value, move-only &&}, mock kind {plain; const, overloaded, IMPLEMENT_MOCKn on the first and last position}); WITH / SIDE_EFFECT / RETURN / THROW each reference _p; address identity, caller-visible writes, copy and move counters, positional values of all other parameters; locals modified between creation and call for every clause kind",
                  "[\"instrumented argument type Cnt counts copies and moves\", \"sanitizer build\"]");
}
