#!/bin/bash
D=$1; TAG=$2; WT=/tmp/cs-$TAG
exec > $D/confirm.txt 2>&1
echo "repo HEAD: $(git -C /repo rev-parse --short HEAD)"
git -C /repo worktree remove --force $WT 2>/dev/null; rm -rf $WT
git -C /repo worktree add -q --detach $WT HEAD
trap "git -C /repo worktree remove --force $WT; rm -rf /tmp/csd-$TAG" EXIT
git -C $WT apply $D/patch.diff || { echo "RESULT: patch-does-not-apply"; exit 1; }
git -C $WT diff > $D/patch.rebased.diff
mkdir -p /tmp/csd-$TAG/clean && git -C /repo archive HEAD include | tar -x -C /tmp/csd-$TAG/clean
g++ -std=c++14 -O1 -I/tmp/csd-$TAG/clean/include $D/demo.cpp -o /tmp/csd-$TAG/demo || { echo "RESULT: demo-does-not-build"; exit 1; }
cd /tmp/csd-$TAG
ok=1; TROMPELOEIL_INCLUDE=/tmp/csd-$TAG/clean/include ./demo > c.log 2>&1 || ok=0; tail -2 c.log
fail=1; if TROMPELOEIL_INCLUDE=$WT/include ./demo > m.log 2>&1; then fail=0; fi; tail -3 m.log
echo "demo_on_clean_passes=$ok demo_on_mutant_fails=$fail"
[ $ok = 1 ] && [ $fail = 1 ] || { echo "RESULT: demo-not-confirmed"; exit 1; }
mkdir -p $WT/_b && cd $WT/_b && cmake -G Ninja -DTROMPELOEIL_BUILD_TESTS=on -DCMAKE_BUILD_TYPE=RelWithDebInfo -DCMAKE_CXX_FLAGS=-Wno-error .. >/dev/null && ninja self_test 2>&1 | tail -2
if ./test/self_test | tail -2 | grep -q "All tests passed"; then echo "suite: All tests passed"; echo "RESULT: confirmed demo-ok flags='env TROMPELOEIL_INCLUDE'"; else echo "RESULT: suite-fails"; fi
