#!/usr/bin/env python3
"""Systematic first-order mutants of the library headers, to measure what the quick checks detect beyond the hand-made and
sub-agent-made seeded changes (DESIGN.md 11.6).

  mutate.py list  <region> [...]          print the mutants of the named regions (id, file, line, operator, before -> after)
  mutate.py run   <out.json> <region>...  for each mutant: apply it in a scratch worktree of /repo HEAD (never in /repo), run the quick
                                          checks mapped to the region; a mutant no check kills is then run against the project's own test
                                          suite (suite kills it -> "suite-only", else "survivor": equivalent mutant or a gap to look at)
Regions map code ranges to the properties whose checks should notice a change there.
Operators (one change per mutant, only on code lines: comments, static_assert texts and preprocessor lines are left alone):
  ==/!= swapped, && / || swapped, leading ! of a condition dropped, true/false swapped in a return, +1/-1 literal dropped,
  a statement that is a plain call `x->f(...);` / `f(...);` / `++x;` deleted, `return;` inserted before such a statement.
"""
import json
import os
import re
import shutil
import subprocess
import sys
import time

VERIF = os.path.dirname(os.path.dirname(os.path.abspath(__file__)))
INC = 'include/trompeloeil/'
REGIONS = {
    # name: (file, first line, last line, checks)
    'list':        (INC + 'mock.hpp', 1305, 1606, ['C01', 'C14', 'C02']),
    'seqhandler':  (INC + 'mock.hpp', 1741, 1907, ['C05', 'C03', 'C06']),
    'matcherlist': (INC + 'mock.hpp', 1981, 2219, ['C04', 'C01', 'C15', 'C10']),
    'trace':       (INC + 'mock.hpp', 2220, 2300, ['C17']),
    'find':        (INC + 'mock.hpp', 2301, 2381, ['C02', 'C15', 'C01']),
    'clauses':     (INC + 'mock.hpp', 2382, 2541, ['C08', 'C09']),
    'times':       (INC + 'mock.hpp', 2822, 2926, ['C03', 'C07']),
    'modifiers':   (INC + 'mock.hpp', 2607, 2821, ['C08', 'C09', 'C19']),
    'reporting':   (INC + 'mock.hpp', 640, 880, ['C16', 'C17', 'C15']),
    'callmatcher': (INC + 'mock.hpp', 2941, 3250, ['C01', 'C04', 'C05', 'C08', 'C15', 'C16', 'C12']),
    'mockfunc':    (INC + 'mock.hpp', 3251, 3417, ['C01', 'C02', 'C03', 'C04', 'C14', 'C17', 'C19']),
    'sequence':    (INC + 'sequence.hpp', 30, 412, ['C05', 'C06', 'C02', 'C14']),
    'lifetime':    (INC + 'lifetime.hpp', 25, 210, ['C13', 'C14', 'C05', 'C06', 'C12']),
    'print':       (INC + 'mock.hpp', 880, 1300, ['C18', 'C15']),
    'compare':     (INC + 'matcher/compare.hpp', 20, 163, ['C10', 'C04']),
    'setpred':     (INC + 'matcher/set_predicate.hpp', 20, 161, ['C10']),
    'deref':       (INC + 'matcher/deref.hpp', 20, 83, ['C10']),
    'not':         (INC + 'matcher/not.hpp', 20, 82, ['C10']),
    're':          (INC + 'matcher/re.hpp', 20, 148, ['C10']),
    'range':       (INC + 'matcher/range.hpp', 30, 831, ['C11']),
    'coro':        (INC + 'coro.hpp', 30, 330, ['C20']),
}


def sh(cmd, **kw):
    return subprocess.run(cmd, shell=True, stdout=subprocess.PIPE, stderr=subprocess.STDOUT, universal_newlines=True, **kw)


def code_part(line):
    """the line without a trailing // comment; None for lines that are not code"""
    s = line.rstrip('\n')
    t = s.strip()
    if not t or t.startswith('//') or t.startswith('#') or t.startswith('*') or t.startswith('/*') or 'static_assert' in t or t.startswith('"'):
        return None
    i = s.find('//')
    return s if i < 0 else s[:i]


def mutants_of(region):
    f, lo, hi, checks = REGIONS[region]
    lines = open(os.path.join('/repo', f)).read().split('\n')
    out = []

    def add(ln, op, new):
        out.append(dict(id='%s:%d:%s:%d' % (region, ln, op, sum(1 for m in out if m['line'] == ln and m['op'] == op)), region=region, file=f, line=ln, op=op, before=lines[ln - 1].strip(), after=new.strip(), new=new))

    for ln in range(lo, min(hi, len(lines)) + 1):
        raw = lines[ln - 1]
        c = code_part(raw)
        if c is None:
            continue
        tail = raw[len(c):]
        for m in re.finditer(r'==|!=', c):
            rep = '!=' if m.group() == '==' else '=='
            if 'operator' in c[max(0, m.start() - 10):m.start()]:
                continue
            add(ln, 'eqne', c[:m.start()] + rep + c[m.end():] + tail)
        for m in re.finditer(r'&&|\|\|', c):
            if m.group() == '&&' and re.search(r'[\w>)]\s*&&\s*(\.\.\.)?\s*[\w)]*\s*[,)]', c[max(0, m.start() - 30):m.end() + 12]) and not re.search(r'\)\s*&&|&&\s*[!(]', c[max(0, m.start() - 2):m.end() + 2]):
                continue  # an rvalue reference declarator, not a conjunction
            rep = '||' if m.group() == '&&' else '&&'
            add(ln, 'andor', c[:m.start()] + rep + c[m.end():] + tail)
        for m in re.finditer(r'(?<![=!<>\w])!(?=[\w(])', c):
            add(ln, 'dropnot', c[:m.start()] + c[m.end():] + tail)
        m = re.search(r'\breturn\s+(true|false)\s*;', c)
        if m:
            add(ln, 'retbool', c[:m.start(1)] + ('false' if m.group(1) == 'true' else 'true') + c[m.end(1):] + tail)
        for m in re.finditer(r'\s[+-]\s*1\b(?!\s*[<>:])', c):
            add(ln, 'drop1', c[:m.start()] + c[m.end():] + tail)
        if re.match(r'^\s*(?:[\w:]+(?:->|\.))*[\w:~]+\([^;{}]*\);\s*$', c) and not re.match(r'^\s*(return|throw|using|typedef|static|friend|virtual|explicit|template|auto|const|constexpr|inline)\b', c) and '=' not in c.split('(')[0]:
            add(ln, 'delcall', re.match(r'^\s*', c).group() + ';' + tail)
        elif re.match(r'^\s*(\+\+|--)[\w>.-]+;\s*$', c):
            add(ln, 'delcall', re.match(r'^\s*', c).group() + ';' + tail)
    return out


def run_mutants(out_path, regions):
    results = json.load(open(out_path)) if os.path.exists(out_path) else {}
    todo = [m for r in regions for m in mutants_of(r)]
    head = sh('git -C /repo rev-parse --short HEAD').stdout.strip()
    for k, m in enumerate(todo):
        if m['id'] in results:
            continue
        wt = '/tmp/mutant-%d' % os.getpid()
        sh('git -C /repo worktree remove --force %s' % wt); shutil.rmtree(wt, ignore_errors=True)
        sh('git -C /repo worktree add -q --detach %s HEAD' % wt)
        res = dict(m); res.pop('new'); res['repo_head'] = head
        try:
            p = os.path.join(wt, m['file'])
            lines = open(p).read().split('\n'); lines[m['line'] - 1] = m['new']; open(p, 'w').write('\n'.join(lines))
            # stillborn? (a quick syntax check of the umbrella header in both language levels the checks use)
            r = sh('echo "#include <trompeloeil.hpp>" | g++ -std=c++14 -fsyntax-only -x c++ -I%s/include - && echo "#include <trompeloeil.hpp>\n#include <trompeloeil/coro.hpp>" | g++ -std=c++20 -fsyntax-only -x c++ -I%s/include -' % (wt, wt))
            if r.returncode != 0:
                res['verdict'] = 'stillborn'
            else:
                scratch = os.path.join(wt, '_verif_out')
                env = dict(os.environ, VERIF_REPO=wt, VERIF_EVIDENCE_DIR=os.path.join(scratch, 'evidence'), VERIF_REPLAY_DIR=os.path.join(scratch, 'replays'))
                killed_by = None
                for c in REGIONS[m['region']][3]:
                    t0 = time.time()
                    r = sh('%s %s --tier quick' % (os.path.join(VERIF, 'check'), c), env=env)
                    if r.returncode == 1 and 'VIOLATION' in r.stdout:
                        killed_by = c
                        what = ''
                        try:
                            rp = [l for l in r.stdout.splitlines() if l.startswith('VIOLATION')][0].split('replay=')[1]
                            what = json.load(open(rp)).get('what', '')[:160]
                        except Exception:
                            pass
                        res['what'] = what; res['check_wall_s'] = round(time.time() - t0, 1)
                        break
                    if r.returncode not in (0, 1):
                        res.setdefault('check_errors', []).append('%s: exit %d' % (c, r.returncode))
                if killed_by:
                    res['verdict'] = 'killed'; res['killed_by'] = killed_by
                else:
                    # not noticed by the mapped checks: does the project's own suite notice?
                    b = os.path.join(wt, '_b'); os.makedirs(b, exist_ok=True)
                    r = sh('cd %s && cmake -G Ninja -DTROMPELOEIL_BUILD_TESTS=on -DCMAKE_BUILD_TYPE=RelWithDebInfo -DCMAKE_CXX_FLAGS=-Wno-error .. >/dev/null && ninja self_test >/dev/null 2>&1; ./test/self_test 2>&1 | tail -3' % b)
                    res['suite_tail'] = r.stdout[-300:]
                    res['verdict'] = 'survivor' if 'All tests passed' in r.stdout else 'suite-only'
        finally:
            sh('git -C /repo worktree remove --force %s' % wt); shutil.rmtree(wt, ignore_errors=True)
        results[m['id']] = res
        json.dump(results, open(out_path, 'w'), indent=1)
        print('[%d/%d] %s  %s  %s -> %s   %s' % (k + 1, len(todo), m['id'], res['verdict'], m['before'][:60], m['after'][:60], res.get('killed_by', '')), flush=True)
    return results


if __name__ == '__main__':
    if sys.argv[1] == 'list':
        for r in sys.argv[2:]:
            ms = mutants_of(r)
            for m in ms:
                print('%-28s %s:%d  %s\n      - %s\n      + %s' % (m['id'], m['file'], m['line'], m['op'], m['before'], m['after']))
            print('# %s: %d mutants' % (r, len(ms)))
    elif sys.argv[1] == 'run':
        res = run_mutants(sys.argv[2], sys.argv[3:])
        tally = {}
        for v in res.values():
            tally[v['verdict']] = tally.get(v['verdict'], 0) + 1
        print(tally)
