#!/usr/bin/env python3
"""Seeded property-breaking changes (written by independent sub-agents, confirmed by tools/confirm_seed.sh).

  seeds.py import <seedout-dir> <name> <property>   copy a confirmed seed into /verif/seeded/<name>/
  seeds.py test <name> [<check id> ...]             apply the seed to /repo, run the quick checks, undo, record the result
  seeds.py table                                    print the detection table (markdown)
"""
import json
import os
import shutil
import subprocess
import sys
import time

VERIF = os.path.dirname(os.path.dirname(os.path.abspath(__file__)))
SEEDED = os.path.join(VERIF, 'seeded')


def sh(cmd, **kw):
    return subprocess.run(cmd, shell=True, stdout=subprocess.PIPE, stderr=subprocess.STDOUT, universal_newlines=True, **kw)


def do_import(src, name, prop):
    d = os.path.join(SEEDED, name)
    os.makedirs(d, exist_ok=True)
    patch = os.path.join(src, 'patch.rebased.diff')
    if not os.path.exists(patch) or os.path.getsize(patch) == 0:
        patch = os.path.join(src, 'patch.diff')
    shutil.copy(patch, os.path.join(d, 'patch.diff'))
    shutil.copy(os.path.join(src, 'demo.cpp'), os.path.join(d, 'demo.cpp'))
    if os.path.exists(os.path.join(src, 'NOTES.md')):
        shutil.copy(os.path.join(src, 'NOTES.md'), os.path.join(d, 'NOTES.md'))
    confirm = open(os.path.join(src, 'confirm.txt')).read() if os.path.exists(os.path.join(src, 'confirm.txt')) else ''
    meta = {
        'property': prop,
        'origin': 'independent sub-agent given only the property text and a scratch worktree',
        'needs_to_manifest': '(see NOTES.md)',
        'confirmed': 'RESULT: confirmed' in confirm,
        'confirmation_log': confirm[-3000:],
        'what_i_ran': 'tools/confirm_seed.sh: patch applied to a scratch worktree of /repo HEAD; self_test built warning-free and "All tests passed"; demo.cpp exits 0 on the unchanged headers and non-zero with the change (twice each)',
        'detection': {},
    }
    json.dump(meta, open(os.path.join(d, 'meta.json'), 'w'), indent=1)
    print('imported', name)


def do_test(name, checks):
    """The seed is applied in a scratch worktree of /repo HEAD (never in /repo itself, so that background runs against /repo are
    not disturbed); the checks are pointed at it through VERIF_REPO and write their evidence / replays to a scratch directory."""
    d = os.path.join(SEEDED, name)
    meta = json.load(open(os.path.join(d, 'meta.json')))
    if not checks:
        checks = [meta['property']]
    wt = '/tmp/seedtest-%s' % name
    sh('git -C /repo worktree remove --force %s' % wt)
    shutil.rmtree(wt, ignore_errors=True)
    r = sh('git -C /repo worktree add -q --detach %s HEAD' % wt)
    if r.returncode != 0:
        print(r.stdout); return 2
    try:
        r = sh('git -C %s apply %s' % (wt, os.path.join(d, 'patch.diff')))
        if r.returncode != 0:
            print('patch does not apply to the current /repo HEAD:\n' + r.stdout)
            meta['detection']['_apply'] = 'patch does not apply to HEAD %s' % sh('git -C /repo rev-parse --short HEAD').stdout.strip()
            json.dump(meta, open(os.path.join(d, 'meta.json'), 'w'), indent=1)
            return 2
        head = sh('git -C /repo rev-parse --short HEAD').stdout.strip()
        scratch = os.path.join(wt, '_verif_out')
        env = dict(os.environ, VERIF_REPO=wt, VERIF_EVIDENCE_DIR=os.path.join(scratch, 'evidence'), VERIF_REPLAY_DIR=os.path.join(scratch, 'replays'))
        for c in checks:
            t0 = time.time()
            r = sh('%s %s --tier quick' % (os.path.join(VERIF, 'check'), c), env=env)
            viol = [l for l in r.stdout.splitlines() if l.startswith('VIOLATION')]
            what = ''
            if viol:
                rp = viol[0].split('replay=')[1]
                try:
                    what = json.load(open(rp)).get('what', '')[:300]
                except Exception:
                    what = ''
            res = {'exit': r.returncode, 'detected': r.returncode == 1 and bool(viol), 'violations_printed': len(viol), 'first_violation': what,
                   'wall_s': round(time.time() - t0, 1), 'repo_head': head}
            if r.returncode not in (0, 1):
                res['output_tail'] = r.stdout[-1500:]
            meta['detection'][c] = res
            print('%s on %s: exit %d, %s (%.0fs) %s' % (c, name, r.returncode, 'DETECTED' if res['detected'] else 'not detected', time.time() - t0, what[:120]))
    finally:
        sh('git -C /repo worktree remove --force %s' % wt)
        shutil.rmtree(wt, ignore_errors=True)
    json.dump(meta, open(os.path.join(d, 'meta.json'), 'w'), indent=1)
    return 0


def table():
    rows = []
    for name in sorted(os.listdir(SEEDED)):
        mp = os.path.join(SEEDED, name, 'meta.json')
        if not os.path.exists(mp):
            continue
        m = json.load(open(mp))
        det = m.get('detection', {})
        caught = [c for c, r in det.items() if isinstance(r, dict) and r.get('detected')]
        missed = [c for c, r in det.items() if isinstance(r, dict) and not r.get('detected')]
        rows.append('| %s | %s | %s | %s | %s |' % (name, m['property'], 'yes' if m.get('confirmed') else 'no', ', '.join(caught) or '-', ', '.join(missed) or '-'))
    print('| seed | property | confirmed | caught by (quick) | run but not caught by |\n|---|---|---|---|---|')
    print('\n'.join(rows))


if __name__ == '__main__':
    if sys.argv[1] == 'import':
        do_import(sys.argv[2], sys.argv[3], sys.argv[4])
    elif sys.argv[1] == 'test':
        sys.exit(do_test(sys.argv[2], sys.argv[3:]))
    elif sys.argv[1] == 'table':
        table()
