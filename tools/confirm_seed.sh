#!/bin/bash
# usage: confirm_seed.sh <dir with patch.diff demo.cpp> <tag>
# Confirms a seeded change against the CURRENT /repo HEAD in a scratch worktree:
#  patch applies; self_test builds warning-free and passes; demo passes without / fails with the change.
D=$1; TAG=$2; WT=/tmp/cs-$TAG; OUT=$D/confirm.txt
exec >$OUT 2>&1
echo "repo HEAD: $(git -C /repo rev-parse --short HEAD)"
git -C /repo worktree remove --force $WT 2>/dev/null; rm -rf $WT
git -C /repo worktree add -q --detach $WT HEAD || { echo "RESULT: worktree-failed"; exit 1; }
cleanup() { git -C /repo worktree remove --force $WT 2>/dev/null; rm -rf $WT /tmp/csd-$TAG; }
trap cleanup EXIT
if ! git -C $WT apply --check $D/patch.diff 2>/dev/null; then
  if git -C $WT apply --3way $D/patch.diff 2>/dev/null || patch -d $WT -p1 --fuzz=3 < $D/patch.diff; then echo "patch applied with fuzz/3way"; else echo "RESULT: patch-does-not-apply"; exit 1; fi
else git -C $WT apply $D/patch.diff; fi
git -C $WT diff > $D/patch.rebased.diff
mkdir -p /tmp/csd-$TAG/clean-tree
git -C /repo archive HEAD include | tar -x -C /tmp/csd-$TAG/clean-tree   # pristine headers (the /repo working tree may carry a seed under test)
CLEAN=/tmp/csd-$TAG/clean-tree/include
build_demo() { # inc flags out
  (cd $D && g++ -std=${CXXSTD:-c++14} -O1 -I$1 $2 demo.cpp -o $3 -pthread 2>&1 | tail -3)   # from its own directory: some demos match __FILE__ in report texts
}
verdict=""
for FL in "" "-fsanitize=address" "-fsanitize=thread"; do
  build_demo $CLEAN "$FL" /tmp/csd-$TAG/clean || continue
  build_demo $WT/include "$FL" /tmp/csd-$TAG/mut || continue
  ok_clean=1; for i in 1 2; do timeout 120 /tmp/csd-$TAG/clean >/tmp/csd-$TAG/c.log 2>&1 || ok_clean=0; done
  fail_mut=1; for i in 1 2; do if timeout 120 /tmp/csd-$TAG/mut >/tmp/csd-$TAG/m.log 2>&1; then fail_mut=0; fi; done
  echo "flags='$FL' demo_on_clean_passes=$ok_clean demo_on_mutant_fails=$fail_mut"; tail -2 /tmp/csd-$TAG/c.log; tail -3 /tmp/csd-$TAG/m.log
  if [ $ok_clean = 1 ] && [ $fail_mut = 1 ]; then verdict="demo-ok flags='$FL'"; break; fi
done
[ -z "$verdict" ] && { echo "RESULT: demo-not-confirmed"; exit 1; }
echo "$verdict"
mkdir -p $WT/_b && cd $WT/_b && cmake -G Ninja -DTROMPELOEIL_BUILD_TESTS=on -DCMAKE_BUILD_TYPE=RelWithDebInfo -DCMAKE_CXX_FLAGS=-Wno-error .. >/dev/null && ninja self_test 2>&1 | tail -3
if [ -x test/self_test ] && ./test/self_test | tail -2 | grep -q "All tests passed"; then echo "suite: All tests passed"; echo "RESULT: confirmed $verdict"; exit 0; else ./test/self_test 2>&1 | tail -3; echo "RESULT: suite-fails-or-does-not-build"; exit 1; fi
