#!/usr/bin/env python3
"""Writes /verif/MANIFEST.json from the table below (kept in one place so that the manifest stays valid and consistent)."""
import json
import os

VERIF = os.path.dirname(os.path.dirname(os.path.abspath(__file__)))

HIST_TECH = ('explicit-state model checking: breadth-first exploration of a C++ reference model (engines/histmc/model.hpp) over a '
             'bounded operation alphabet; every transition is bound to the code by replaying its whole history on real trompeloeil '
             'objects and comparing every observable of every step (conformance of all model traces, not only counterexamples)')
HIST_NOTE = ('Trusted: the reference model as the reading of the statement (it is self-checked against declarative invariants in every state), '
             'the report parser, g++ 12 -O1. Bounds (population, depth, argument domain {0,1,2}) are stated in the evidence; beyond the unmerged depth, '
             'equal model states are assumed to have equal implementation futures (the conformance check covers both merged histories up to their merge point).')

CHECKS = {
    'C01': dict(engine='histmc', sec='4 C01', text='All histories over create/release/call/move/destroy of overlapping expectations (two or three live at a time, three matcher kinds, WITH, four bounds, sequenced variants, a movable mock) up to the stated depth: accept/reject, exactly-one-fatal-report, empty clause log on rejection and unchanged is_satisfied/is_saturated vector are compared with the model on every step.'),
    'C02': dict(engine='histmc', sec='4 C02', text='All configurations of three overlapping expectations (wildcard / eq / lt / WITH) x subsets of two sequences x bounds, and all call/release orders up to the depth: the handler identity (carried by the returned value), the clause log and the state vector of every other expectation are compared with the selection function of the model; an isolation plan puts expectations on another object, function and overload.'),
    'C03': dict(engine='histmc', sec='4 C03', text='Every bound form (default, TIMES(n), TIMES(l,h), AT_LEAST, AT_MOST, ALLOW_CALL, FORBID_CALL, RT_TIMES(l,h) for 0<=l<=h<=3 and unbounded) alone and stacked under/over ALLOW_CALL, n up to H+2 calls with queries after every step, RT_TIMES(n), RT_TIMES(lo>hi) with and without IN_SEQUENCE, the same bounds on sequenced expectations stated before or after IN_SEQUENCE, on a moved mock, and through the variadic _V macros. Companion enumeration in the same check: every macro spelling ({REQUIRE,ALLOW,FORBID}_CALL x plain/_V x scoped/NAMED_ x clause lists) x every call sequence over two argument values up to length 4/5 against a reference evaluator.'),
    'C04': dict(engine='histmc', sec='4 C04', text='All orders of release, mock destruction, mock move, calls and earlier no-match reports for expectations with five bound pairs on a plain and a movable mock: number, kind, culprit, required/actual counts, text and expected-parameter lines of every end-of-life report, is_satisfied/is_saturated after every step; lifetimes ended by stack unwinding; a reporter (user code) that destroys the mock while a report is delivered; RT_TIMES(n) and _V forms. The macro-spelling companion enumeration (scoped vs NAMED_ lifetimes) runs in the same check.'),
    'C05': dict(engine='histmc', sec='4 C05', text='All assignments of three expectations / lifetime monitors to subsets of two sequences with the stated bounds, all call / release / destruction orders up to the depth: eligibility, forward-only movement, one fatal report and unchanged state on ineligible calls, non-fatal reports per violated sequence for destructions.'),
    'C06': dict(engine='histmc', sec='4 C06', text='Same configuration space with sequence destruction and move added: is_completed() of every live sequence after every step, and the teardown report (exactly the still-registered expectations, in registration order).'),
    'C07': dict(engine='histmc', sec='4 C07', text='All stackings and lifetime nestings of allowing and forbidding expectations (FORBID_CALL, TIMES(0), RT_TIMES(0,0)) with overlapping matchers, repeated forbidden calls: one fatal forbidden report with location and arguments, no action, unchanged state; behaviour after release as if it never existed (the model forgets released expectations); FORBID_CALL with WITH, the _V forms, a run-time zero bound with IN_SEQUENCE in either order. The macro-spelling companion enumeration runs over the FORBID forms in the same check.'),
    'C08': dict(engine='histmc', sec='4 C08', text='Every interleaving of up to 2 (quick) / 3 (thorough) WITH and SIDE_EFFECT clauses on value, void, reference-returning and throwing expectations, with every vector of run-time switches (condition false, side effect throws, side effect calls another mock function), a shadowed older expectation with its own clauses: clause evaluation log, returned value / object identity / exception, counting on throw, WITH pass shape; no-match paths with several WITH clauses; a side effect that destroys its own mock object; throwing calls inside sequences; the _V forms.'),
    'C13': dict(engine='histmc', sec='4 C13', text='All orders of monitor creation/release, object destruction, copy/move construction and copy/move assignment over 2 (quick) / 3 (thorough) deathwatched objects and 2-3 monitor slots, with and without sequences; address-sanitized build so that a stale monitor pointer is a crash; objects destroyed by stack unwinding; copies from const and non-const lvalues. Companion enumeration: scoped and NAMED_ REQUIRE_DESTRUCTION, with and without IN_SEQUENCE, death inside / after the scope.'),
    'C14': dict(engine='histmc', sec='4 C14', text='Unmerged enumeration of every destruction / move order (to the stated depth) of a mixed population - plain and movable mock, expectations (one saturating), two sequences, watched object with sequenced monitor, tracer - with probe calls on the survivors, under ASan+UBSan+LSan and the library\'s own TROMPELOEIL_SANITY_CHECKS asserts; behaviour of moved mocks compared with the model.'),
    'C15': dict(engine='histmc', sec='4 C15', text='The severity / culprit / listing mask applied to every violation produced by the alphabets of C01, C03-C07 and C13, plus a two-parameter overload plan (expectations matching one position and missing the other, WITH failing after the parameters fit).'),
    'C16': dict(engine='histmc', sec='4 C16', text='All histories over three expectation slots (allowing, bounded, forbidding, sequenced, other function), calls with three argument values and reporter replacement (pair and single-argument forms) at arbitrary points: OK reports per call and the routing of reports to the installed generation; calls from a catch handler, throwing / nesting side effects, bounds with L >= 2, a nullary function, ANY(int) in the text, an OK callback that installs reporters, and a reporter function object with state (the object handed back by set_reporter must be the installed one).'),
    'C17': dict(engine='histmc', sec='4 C17', text='All nestings of up to three tracers (recording tracer and stream_tracer) interleaved with calls returning values / references / void, throwing std and non-std exceptions, and recursive calls from side effects: the trace records each tracer received; std::string results, throwing side effects, a tracer constructed inside a call, a nullary function, a macro inside the expectation text.'),
}

SCHED_TECH = ('stateless model checking of the implementation: exhaustive depth-first enumeration of all schedules (choice of the next thread to enter a critical section) of all tiny '
              'multi-threaded programs over a fixed operation alphabet, real threads under a cooperative futex scheduler; ThreadSanitizer on every schedule; results checked against the set of '
              'results of all program-order-respecting interleavings of the operations\' atomic steps on the reference model (linearizability)')
ENUM_TECH = ('bounded exhaustive exploration of a term / input space against a reference model: every term (matcher expression, element list, parameter-mode vector, printed type) up to the stated '
             'size x every value of a small domain is executed on the real library and compared with a denotational reference evaluator; nothing is sampled')
COMP_TECH = ('explicit-state exploration of the clause typestate automaton (the model, read off the documented static_asserts) with every model trace replayed on the implementation: each clause '
             'sequence up to the length bound is compiled by g++ and clang++ against the real headers and the outcome / diagnostic compared with the automaton')

CHECKS.update({
    'C09': dict(engine='enum', tech=ENUM_TECH, sec='4 C09', note='Trusted: the instrumented argument types (copy/move counters), g++ 12 -O0 for the grid and g++ 12 -O1 with ASan (detect_stack_use_after_return=1) for the lifetime companion; C++14 macro set.',
                text='One generated mock function per (arity 0..15, probed position, passing mode {int, T&, const T&, T&&, T*, by value, move-only by value, move-only &&}) plus const / overloaded / IMPLEMENT_MOCKn kinds on the first and last position; WITH, SIDE_EFFECT, RETURN and THROW each reference _p: address identity, caller-visible writes, copy/move counts, positional values of all other parameters; locals modified between creation and call for every clause kind ([=] vs [&]); const-reference and rvalue returns, constness of T& parameters inside clauses, RETURN of an lvalue parameter copies. Companion: factory-made expectations of every plain clause kind used after the creating frame is gone (sanitizer decides lifetime).'),
    'C10': dict(engine='enum', tech=ENUM_TECH, sec='4 C10', note='Trusted: the 40-line reference evaluator over the term syntax; value domain {-1..3}; term depth <= 2; sanitizer build.',
                text='Every matcher term up to depth 2 over the leaves (_, ANY, eq/ne/lt/le/gt/ge duck-typed and typed, plain values), !m, *m on raw/unique/shared pointers incl. null, any_of/all_of/none_of with 1-3 operands, MEMBER_IS; every operand and argument value in {-1..3}; strings incl. empty, 9 regular expressions x 8 subjects incl. null; operand lvalues reused across matchers; user-defined pointer types, doubles incl. NaN, strings with NUL, groups / back-references and match flags in re(), the documented null-guard idiom, operands of a wider arithmetic type; a slice through real mock calls.'),
    'C11': dict(engine='enum', tech=ENUM_TECH, sec='4 C11', note='Trusted: the reference predicates (injective assignment by brute force; first-fit with either removal discipline for overlapping matchers).',
                text='Every range over {1,2,3} up to length 4 (quick) / 5 (thorough) x every element list up to length 3 / 4 x the 8 range matchers x variadic and collection flavour x element families (plain values, eq, all_of(ge,le), overlapping gt) x containers (vector, list, deque, array, C array, initializer_list); all documented call forms must compile (both compilers).'),
    'C12': dict(engine='schedmc', tech=SCHED_TECH, sec='4 C12', note='Trusted: the scheduler (engines/schedmc/sched.c, uninstrumented, raw futex), ThreadSanitizer of clang 14 as the race oracle, the reference model with the atomic steps of appendix B. Scheduling granularity = outermost acquisitions of the library lock; sequentially consistent interleavings only.',
                text='All 2x1 programs over 21 operations, 2x2 programs over 10 operations (quick) / 18 operations (thorough), 3x1 programs (thorough): every schedule at critical-section granularity, no preemption bound; 2x3 programs with at most 3 and 3x2 programs with at most 2 deviations from the default schedule (thorough); a free-running TSan pass with the default lock of the library (cold starts); tracers constructed inside a call; TSan race reports, deadlock, crash (TSan and ASan+UBSan builds) and linearizability of all results.'),
    'C18': dict(engine='enum', tech=ENUM_TECH, sec='4 C18', note='Trusted: the reference formatter; libstdc++ stream semantics; sanitizer build (a null dereference is a crash of the harness, reported as a violation).',
                text='Type family (opaque structs of 1..40 bytes x 3 byte patterns, integers of four widths, bool, char, strings, raw/smart/function pointers incl. null, null-comparable classes, printer<T> types, pairs, tuples of 0-3, vector/list/deque/set/map nested to depth 3 with nulls and custom printers at every depth) x 81 prior stream states of base x fill x width x adjustment plus 12 with showbase / uppercase / showpos / boolalpha for leaves (structures: those without pending width); null-comparable types with user printers; arguments as reference wrappers; texts of trace records and reports with null, const& and && parameters.'),
    'C20': dict(engine='enum', tech=ENUM_TECH.replace('bounded exhaustive exploration of a term / input space against a reference model', 'bounded exhaustive exploration of operation sequences against a reference model: every interleaving of call / resume / destroy steps of up to three coroutines per expectation shape, plus'), sec='4 C20',
                note='Trusted: the harness\'s own minimal coroutine types (eager/lazy task<int>, task<void>, generator), g++ 12 -std=c++20 with ASan+UBSan. Parameterless mock functions (the statement does not promise parameter lifetime); CO_THROW on return_void generators does not compile and is not a documented combination.',
                text='Every expectation shape (0..4 CO_YIELD clauses x terminal {CO_RETURN value, CO_RETURN of a throwing expression, CO_THROW, void CO_RETURN} x clause order x 8 coroutine types incl. a traits-only promise and reference-result tasks) x 1..3 calls x every interleaving of the call / resume (/ destroy) steps of the resulting coroutines: per-coroutine event sequence, side effects at call time only, release reports; saturation, sequence order, forbidding and argument matching at call time.'),
    'C19': dict(engine='compmc', tech=COMP_TECH, sec='4 C19, appendix D', note='Trusted: the automaton as the reading of the documented diagnostics; g++ 12 and clang++ 14 with libstdc++. Clause sequences up to length 2 (quick) / 3 (thorough).',
                text='All clause sequences up to the length bound over {WITH, SIDE_EFFECT, RETURN, THROW, TIMES(2), TIMES(0), TIMES(AT_MOST(2)), RT_TIMES, IN_SEQUENCE, CO_RETURN, CO_THROW, CO_YIELD} x signature kinds {void, value, reference, coroutine<int>, coroutine<void>} x {REQUIRE, ALLOW, FORBID}_CALL and NAMED_ forms x C++14/17/20 x g++/clang++; the 68 shipped negative programs with their own pass rules; parameter indices beyond the arity in every clause kind; legal clause orders, the _V macro family (misuse and legal), trailing specifiers and the IMPLEMENT_MOCK family; the macro namespace of every header under TROMPELOEIL_LONG_MACROS.'),
})

PENDING = {
    'C09': 'check under construction in this build round (engine E3 enum, DESIGN.md section 4 C09); not claimed until it runs',
    'C10': 'check under construction in this build round (engine E3 enum, DESIGN.md section 4 C10); not claimed until it runs',
    'C11': 'check under construction in this build round (engine E3 enum, DESIGN.md section 4 C11); not claimed until it runs',
    'C12': 'check under construction in this build round (engine E2 schedmc, DESIGN.md section 4 C12); not claimed until it runs',
    'C18': 'check under construction in this build round (engine E3 enum, DESIGN.md section 4 C18); not claimed until it runs',
    'C19': 'check under construction in this build round (engine E4 compmc, DESIGN.md section 4 C19); not claimed until it runs',
}

ENGINES = {
    'histmc': dict(name='histmc', path='engines/histmc', kind_free_text='explicit-state model checker over a C++ reference model with conformance replay of every trace on the real headers (DESIGN.md 3.2)'),
    'schedmc': dict(name='schedmc', path='engines/schedmc', kind_free_text='stateless schedule explorer over hooked lock acquisitions (library customisation point), TSan per schedule, linearizability against the reference model (DESIGN.md 3.3)'),
    'enum': dict(name='enum', path='engines/enum (and engines/coro for C20)', kind_free_text='exhaustive term x value enumeration against denotational reference evaluators (DESIGN.md 3.4)'),
    'compmc': dict(name='compmc', path='engines/compmc', kind_free_text='clause typestate automaton explored through the compilers (DESIGN.md 3.5)'),
}


def main():
    checks = []
    for pid in sorted(CHECKS):
        c = CHECKS[pid]
        tech = HIST_TECH if c['engine'] == 'histmc' else c['tech']
        checks.append({
            'property_id': pid,
            'quick_cmd': './check %s --tier quick' % pid,
            'thorough_cmd': './check %s --tier thorough' % pid,
            'evidence_file': 'evidence/%s.json' % pid,
            'replay_cmd_template': './check %s --replay {path}' % pid,
            'engine': c['engine'],
            'level_claimed': {'category': 'model_checking', 'text': c['text'], 'design_ref': 'DESIGN.md section ' + c['sec']},
            'level_note': c.get('note', HIST_NOTE),
            'technique': tech,
        })
    engines = []
    for name, e in ENGINES.items():
        e = dict(e)
        e['serves_properties'] = sorted(p for p, c in CHECKS.items() if c['engine'] == name)
        engines.append(e)
    manifest = {
        'version': 1,
        'setup_cmd': './check --setup',
        'hooks': {
            'guard': 'TROMPELOEIL_VERIF',
            'enable': 'no hook was needed: nothing in /repo is guarded by this define. Checks compile /repo/include as it is and use the library\'s own documented customisation macros on the harness side (TROMPELOEIL_CUSTOM_RECURSIVE_MUTEX, TROMPELOEIL_SANITY_CHECKS).',
            'baseline_off_cmd': './check --baseline',
            'source_commits': [],
            'add_only': True,
        },
        'engines': engines,
        'checks': checks,
        'notes': 'Genuine defects found by the checks were repaired in /repo with "fix:" commits (listed in known_findings.txt as fixed:) or recorded as findings there. See DESIGN.md.',
        'not_applicable': [{'property_id': p, 'reason': r} for p, r in sorted(PENDING.items()) if p not in CHECKS],
    }
    with open(os.path.join(VERIF, 'MANIFEST.json'), 'w') as f:
        json.dump(manifest, f, indent=1)
        f.write('\n')


if __name__ == '__main__':
    main()
